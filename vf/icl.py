"""Independent RFC 5545 / RFC 6350 content-line parser (shares no code with
xandikos, icalendar or vobject).  Used as the reference for "is this a
well-formed object", "which UID does it carry", "is it property-for-property
the same object" and by the RFC 4791 / 6352 filter oracles."""
import re


class ICLError(ValueError):
    pass


NAME_RE = re.compile(r"^[A-Za-z0-9-]+$")
TEXT_PROPS = {"SUMMARY", "DESCRIPTION", "LOCATION", "COMMENT", "CATEGORIES", "CONTACT", "RESOURCES",
              "UID", "NOTE", "FN", "TITLE", "NICKNAME", "ROLE", "X-VF-ID", "RELATED-TO", "STATUS", "CLASS",
              "TRANSP", "ACTION", "TZID", "TZNAME", "PRODID", "VERSION", "CALSCALE", "METHOD", "EMAIL", "TEL",
              "ORG", "N", "ADR", "LABEL", "KIND", "NAME"}


def unfold(data):
    if isinstance(data, (list, tuple)):
        data = b"".join(data)
    if isinstance(data, (bytes, bytearray)):
        try:
            text = bytes(data).decode("utf-8")
        except UnicodeDecodeError as e:
            raise ICLError("not utf-8: %s" % e)
    else:
        text = data
    text = text.replace("\r\n", "\n").replace("\r", "\n")
    lines = []
    for raw in text.split("\n"):
        if raw[:1] in (" ", "\t") and lines:
            lines[-1] += raw[1:]
        else:
            lines.append(raw)
    return [ln for ln in lines if ln != ""]


def split_line(line):
    """'NAME;P=v;Q="a:b",c:value' -> (group, NAME, [(P, [values])], value)"""
    i = 0
    n = len(line)
    # name
    while i < n and line[i] not in ";:":
        i += 1
    if i == n:
        raise ICLError("content line without ':' : %r" % line[:60])
    name = line[:i]
    group = None
    if "." in name:
        group, name = name.rsplit(".", 1)
    if not NAME_RE.match(name):
        raise ICLError("bad property name %r" % name[:40])
    params = []
    while line[i] == ";":
        i += 1
        j = i
        while j < n and line[j] not in "=;:":
            j += 1
        if j == n:
            raise ICLError("unterminated parameter in %r" % line[:60])
        pname = line[i:j]
        vals = []
        if line[j] == "=":
            j += 1
            while True:
                if j < n and line[j] == '"':
                    k = line.find('"', j + 1)
                    if k < 0:
                        raise ICLError("unterminated quoted parameter value")
                    vals.append(line[j + 1:k])
                    j = k + 1
                else:
                    k = j
                    while k < n and line[k] not in ",;:":
                        k += 1
                    vals.append(line[j:k])
                    j = k
                if j < n and line[j] == ",":
                    j += 1
                    continue
                break
        else:
            # vCard 2.1 style bare parameter (TYPE value without name)
            vals = [pname]
            pname = "TYPE"
        if j >= n:
            raise ICLError("content line without ':' after parameters: %r" % line[:60])
        params.append((pname.upper(), vals))
        i = j
    if line[i] != ":":
        raise ICLError("expected ':' in %r" % line[:60])
    return group, name.upper(), params, line[i + 1:]


def unescape_text(v):
    out = []
    i = 0
    while i < len(v):
        c = v[i]
        if c == "\\" and i + 1 < len(v):
            d = v[i + 1]
            if d in "nN":
                out.append("\n")
            elif d in "\\;,:":
                out.append(d)
            else:
                out.append(c + d)
            i += 2
        else:
            out.append(c)
            i += 1
    return "".join(out)


def split_unescaped(v, sep):
    parts, cur, i = [], [], 0
    while i < len(v):
        if v[i] == "\\" and i + 1 < len(v):
            cur.append(v[i:i + 2])
            i += 2
        elif v[i] == sep:
            parts.append("".join(cur))
            cur = []
            i += 1
        else:
            cur.append(v[i])
            i += 1
    parts.append("".join(cur))
    return parts


class Prop:
    __slots__ = ("group", "name", "params", "value")

    def __init__(self, group, name, params, value):
        self.group, self.name, self.params, self.value = group, name, params, value

    def param(self, pname):
        pname = pname.upper()
        out = []
        for k, vs in self.params:
            if k == pname:
                out.extend(vs)
        return out or None

    @property
    def text(self):
        return unescape_text(self.value)

    def __repr__(self):
        return f"Prop({self.name}{self.params}:{self.value!r})"


class Comp:
    __slots__ = ("name", "props", "subs")

    def __init__(self, name):
        self.name = name
        self.props = []
        self.subs = []

    def get(self, name):
        name = name.upper()
        return [p for p in self.props if p.name == name]

    def first(self, name):
        r = self.get(name)
        return r[0] if r else None

    def walk(self):
        yield self
        for s in self.subs:
            yield from s.walk()

    def __repr__(self):
        return f"Comp({self.name}, {len(self.props)} props, {[s.name for s in self.subs]})"


def parse(data, top=None):
    """Parse into a list of top-level components. Raises ICLError."""
    lines = unfold(data)
    if not lines:
        raise ICLError("empty")
    stack = []
    tops = []
    for ln in lines:
        group, name, params, value = split_line(ln)
        if name == "BEGIN":
            c = Comp(value.strip().upper())
            if stack:
                stack[-1].subs.append(c)
            else:
                tops.append(c)
            stack.append(c)
        elif name == "END":
            if not stack or stack[-1].name != value.strip().upper():
                raise ICLError("END:%s does not close %s" % (value, stack[-1].name if stack else None))
            stack.pop()
        else:
            if not stack:
                raise ICLError("property outside component: %r" % ln[:60])
            stack[-1].props.append(Prop(group, name, params, value))
    if stack:
        raise ICLError("unterminated component %s" % stack[-1].name)
    if top is not None:
        if len(tops) != 1 or tops[0].name != top:
            raise ICLError("expected exactly one %s, got %r" % (top, [t.name for t in tops]))
    return tops


def parse_calendar(data):
    return parse(data, "VCALENDAR")[0]


def parse_vcard(data):
    return parse(data, "VCARD")[0]


def canon_prop(p):
    params = tuple(sorted((k, tuple(sorted(v.strip('"') for v in vs))) for k, vs in p.params))
    v = p.value
    if p.name in ("RRULE", "EXRULE"):
        v = ("RECUR", tuple(sorted(x.upper() for x in v.split(";") if x)))
    elif p.name in TEXT_PROPS or p.name.startswith("X-"):
        v = unescape_text(v)
    return (p.name, params, v)


def canon(comp):
    """Canonical form: nested multisets, insensitive to property order,
    folding, line endings, parameter order/quoting, RRULE part order."""
    return (comp.name,
            tuple(sorted(canon_prop(p) for p in comp.props)),
            tuple(sorted(canon(s) for s in comp.subs)))


def canon_bytes(data, top="VCALENDAR"):
    return canon(parse(data, top)[0])


def calendar_uid(cal):
    """UID of a calendar object resource: the UID of its first non-VTIMEZONE
    sub-component that has one (all of them agree in generated data)."""
    for s in cal.subs:
        if s.name == "VTIMEZONE":
            continue
        p = s.first("UID")
        if p is not None:
            return p.text
    return None


def all_uids(cal):
    out = []
    for s in cal.subs:
        if s.name == "VTIMEZONE":
            continue
        p = s.first("UID")
        if p is not None:
            out.append(p.text)
    return out
