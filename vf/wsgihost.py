"""Host xandikos.wsgi:app behind wsgiref.simple_server, the way the README's
uwsgi/mod_wsgi examples do, with the WellknownRedirector in front.
Environment: XANDIKOSPATH, CURRENT_USER_PRINCIPAL, AUTOCREATE, VF_PORTFILE, VF_PREFIX; VF_THREADS=1 serves every
request in its own thread (what uwsgi --threads / mod_wsgi daemon threads do: several requests inside one process)."""
import os
import sys
from wsgiref.simple_server import WSGIRequestHandler, WSGIServer, make_server

home = os.environ.get("VERIF_HOME")
repo = os.environ.get("VERIF_REPO", "/repo")
for p in (home, repo):
    if p and p not in sys.path:
        sys.path.insert(0, p)
sys.path[:] = [p for p in sys.path if os.path.abspath(p or ".") != os.path.dirname(os.path.abspath(__file__))]
if os.environ.get("VF_UMASK"):
    os.umask(int(os.environ["VF_UMASK"], 8))     # the file-creation mask of the account / service unit the server runs under
if os.environ.get("XANDIKOS_VERIF") == "1":
    from vf import agent
    agent.install_from_env()
import xandikos
assert os.path.realpath(xandikos.__file__).startswith(os.path.realpath(repo) + os.sep), xandikos.__file__
from xandikos.wsgi import app
from xandikos.wsgi_helpers import WellknownRedirector

prefix = os.environ.get("VF_PREFIX", "/")
inner = WellknownRedirector(app, prefix)
sn = prefix.rstrip("/")


def mounted(environ, start_response):
    # what a front server does when the application is mounted below a prefix
    if sn:
        p = environ.get("PATH_INFO", "")
        wk = p.startswith("/.well-known/")
        if wk:
            return inner(environ, start_response)
        if p == sn or p.startswith(sn + "/"):
            environ["SCRIPT_NAME"] = sn
            environ["PATH_INFO"] = p[len(sn):]
        else:
            start_response("404 Not Found", [("Content-Length", "0")])
            return []
    return inner(environ, start_response)


class Quiet(WSGIRequestHandler):
    def log_message(self, *a):
        pass


server_class = WSGIServer
if os.environ.get("VF_THREADS") == "1":
    import socketserver

    class ThreadingWSGIServer(socketserver.ThreadingMixIn, WSGIServer):
        daemon_threads = True
    server_class = ThreadingWSGIServer
httpd = make_server("127.0.0.1", 0, mounted, server_class=server_class, handler_class=Quiet)
pf = os.environ["VF_PORTFILE"]
with open(pf + ".tmp", "w") as f:
    f.write(str(httpd.server_address[1]))
os.replace(pf + ".tmp", pf)
httpd.serve_forever()
