"""History engine: a client driving one server (any front end) + the
response-driven reference model + audits.  Monitors subscribe to events."""
import hashlib
import os
import subprocess
import time
import urllib.parse

from . import common, davxml as X, fe as FE, gen, icl

CT = {"calendar": "text/calendar", "addressbook": "text/vcard"}
EXT_CT = {".ics": "text/calendar", ".vcf": "text/vcard", ".txt": "text/plain", ".bin": "application/octet-stream"}

AUDIT_PROPS = [X.P_RESOURCETYPE, X.P_ETAG, X.P_CTYPE, X.P_CTAG_CS, X.P_CTAG_DAV, X.P_SYNCTOKEN]
AUDIT_COLPROPS = [X.P_DISPLAYNAME, X.P_CALCOLOR, X.P_CALDESC, X.P_ABDESC, X.P_CALORDER]


def sha(b):
    return hashlib.sha256(b).hexdigest()[:20]


def ext_of(name):
    i = name.rfind(".")
    return name[i:] if i >= 0 else ""


def ctype_for(name):
    # (extensions are matched case-insensitively, as mimetypes does)
    return EXT_CT.get(ext_of(name).lower(), "application/octet-stream")


class Member:
    __slots__ = ("name", "ctype", "uploaded", "served", "etag", "uid", "token", "canon", "history")

    def __init__(self, name, ctype, uploaded, token, uid):
        self.name = name
        self.ctype = ctype
        self.uploaded = uploaded
        self.served = None
        self.etag = None
        self.uid = uid
        self.token = token
        self.canon = None
        self.history = []  # earlier (uploaded, served, etag)


class Col:
    _inc = 0

    def __init__(self, path, kind, backend, meta="file"):
        Col._inc += 1
        self.inc = Col._inc       # incarnation number (delete + recreate gives a new one)
        self.path = path          # '/user/calendars/c1/' (always with trailing slash, without prefix)
        self.kind = kind          # calendar | addressbook | plain
        self.backend = backend    # tree | bare
        self.meta = meta          # file | gitconfig
        self.members = {}
        self.props = {}           # clark -> text (successfully set)
        self.subcols = set()
        self.tokens = []          # (step, token, {name: etag})
        self.dirty = False
        self.graves = []          # names that were deleted / whose creation was refused: must be 404

    def ext(self):
        return {"calendar": ".ics", "addressbook": ".vcf"}.get(self.kind, ".txt")


class Step:
    __slots__ = ("n", "op", "method", "target", "headers", "body_sha", "body_len", "status", "eff", "err", "t_call", "t_ret", "note", "resp_headers", "broken")

    def brief(self):
        return {"n": self.n, "op": self.op, "method": self.method, "target": self.target, "req_headers": [h for h in self.headers if h[0].lower() not in ("content-type",)],
                "body": f"{self.body_len}B sha={self.body_sha}" if self.body_len is not None else None, "status": self.status, "effective": self.eff,
                "err": self.err, "note": self.note}


class World:
    def __init__(self, base, fe_kind="wsgi", prefix="/", seed=0, principal="/user/", agent=None, autocreate="autocreate", extra_args=(), server_env=None):
        self.base = base
        self.root = os.path.join(base, "root")
        os.makedirs(self.root, exist_ok=True)
        self.fe_kind = fe_kind
        self.prefix = prefix if prefix.endswith("/") else prefix + "/"
        self.principal = principal
        self.autocreate = autocreate
        self.cols = {}
        self.steps = []
        self.monitors = []
        self.n = 0
        self.agent = agent
        self.extra_args = extra_args
        self.server_env = server_env
        self.fe = None
        self.res = None  # common.Result of the shard (set by the caller)
        self.token_n = 0
        self.seed = seed
        self.restarts = 0

    # ---------------------------------------------------------------- server
    def start(self):
        gc = getattr(self, "server_gitconfig", None)
        if gc:
            # the git configuration of the account the server runs under (read by dulwich)
            os.makedirs(os.path.join(self.base, "home"), exist_ok=True)
            with open(os.path.join(self.base, "home", ".gitconfig"), "w") as f:
                f.write(gc)
        if self.fe_kind == "wsgi":
            if (self.server_env or {}).get("VF_UMASK"):
                os.umask(int(self.server_env["VF_UMASK"], 8))
            os.environ["HOME"] = os.path.join(self.base, "home")
            os.makedirs(os.environ["HOME"], exist_ok=True)
            self.fe = FE.WsgiFE(self.root, principal=self.principal, autocreate={"autocreate": "yes", "defaults": "defaults", None: None}[self.autocreate], prefix=self.prefix)
        elif self.fe_kind == "aio":
            self.fe = FE.AioFE(self.root, self.base, principal=self.principal, autocreate=self.autocreate, prefix=self.prefix, agent=self.agent, extra_args=self.extra_args, env=self.server_env)
        elif self.fe_kind == "wsgihost":
            self.fe = FE.WsgiHostFE(self.root, self.base, principal=self.principal, autocreate=self.autocreate, prefix=self.prefix, env=self.server_env)
        else:
            raise ValueError(self.fe_kind)

    def stop(self):
        if self.fe is not None:
            self.fe.stop()

    def adopt_defaults(self):
        """--defaults: the server makes a calendar and an address book for the principal at start-up when they
        are not there; they are collections of the model like those a client made."""
        if self.autocreate != "defaults":
            return []
        new = []
        pr = self.principal.rstrip("/")
        for colpath, kind in ((pr + "/calendars/calendar/", "calendar"), (pr + "/contacts/addressbook/", "addressbook")):
            if colpath in self.cols:
                continue
            if not os.path.isdir(os.path.join(self.root, colpath.strip("/"))):
                continue
            c = Col(colpath, kind, "tree")
            self.cols[colpath] = c
            par = self.parent_of(colpath)
            if par in self.cols:
                self.cols[par].subcols.add(colpath)
            new.append(colpath)
        return new

    def restart(self):
        self.n += 1
        s = self._mkstep("restart", "-", "-", [], None)
        self.fe.restart()
        self.restarts += 1
        self.adopt_defaults()
        s.status = s.eff = 0
        s.t_ret = time.monotonic()
        self.steps.append(s)
        for m in self.monitors:
            m.on_step(self, s, None)
        return s

    # ---------------------------------------------------------------- client
    def url(self, colpath, name=None):
        u = self.prefix.rstrip("/") + colpath
        if name is not None:
            u += gen.quote_name(name)
        return u

    def _mkstep(self, op, method, target, headers, body):
        s = Step()
        s.n = self.n
        s.op = op
        s.method = method
        s.target = target
        s.headers = list(headers)
        s.body_sha = sha(body) if body is not None else None
        s.body_len = len(body) if body is not None else None
        s.status = s.eff = s.err = None
        s.note = None
        s.t_call = time.monotonic()
        s.t_ret = None
        s.resp_headers = None
        s.broken = None
        return s

    def call(self, op, method, target, headers=(), body=None, record=True):
        """Send one request; returns (step, resp)."""
        if record:
            self.n += 1
        s = self._mkstep(op, method, target, headers, body)
        r = self.fe.request(method, target, headers, body)
        s.t_ret = time.monotonic()
        s.status = r.status
        s.broken = r.broken
        if r.broken in ("timeout", "server-died") and self.res is not None:
            self.res.count("request_" + r.broken)
            if len([x for x in self.res.inconclusive if x.startswith("request ")]) < 3:
                self.res.inconclusive.append("request %s: %s %s" % (r.broken, method, target[:80]))
        s.eff, s.err = X.effective_status(method, r)
        s.resp_headers = r.headers
        if record:
            self.steps.append(s)
            if len(self.steps) > 400:
                del self.steps[:100]
        return s, r

    def notify(self, s, r):
        for m in self.monitors:
            m.on_step(self, s, r)

    def new_token(self):
        self.token_n += 1
        return "vf%dx%dz" % (self.seed % 100000, self.token_n)

    @staticmethod
    def success(eff):
        return eff in (200, 201, 204, 207)

    # ---------------------------------------------------------------- provisioning (outside HTTP)
    def provision_bare(self, colpath, kind, meta="gitconfig"):
        """Create a bare git collection on disk while the server is not
        looking (git CLI for the git-config variant; the store API for the
        .xandikos variant)."""
        p = os.path.join(self.root, colpath.strip("/"))
        os.makedirs(os.path.dirname(p), exist_ok=True)
        if meta == "gitconfig":
            subprocess.run(["git", "init", "-q", "--bare", p], check=True, capture_output=True, env=self._git_env())
            subprocess.run(["git", "-C", p, "config", "xandikos.type", kind if kind != "plain" else "other"], check=True, capture_output=True, env=self._git_env())
        else:
            from xandikos.store.git import BareGitStore
            st = BareGitStore.create(p)
            st.set_type(kind if kind != "plain" else "other")
        c = Col(colpath, kind, "bare", meta)
        self.cols[colpath] = c
        par = self.parent_of(colpath)
        if par in self.cols:
            self.cols[par].subcols.add(colpath)
        return c

    def _git_env(self):
        e = common.worker_env({"HOME": os.path.join(self.base, "home")})
        return e

    def parent_of(self, colpath):
        return colpath.rstrip("/").rsplit("/", 1)[0] + "/"

    def fs_path(self, colpath):
        return os.path.join(self.root, colpath.strip("/"))

    # ---------------------------------------------------------------- operations
    def mkcol(self, colpath, kind, how="auto", props=()):
        """how: mkcalendar | mkcol-ext | mkcol-plain | auto"""
        if how == "auto":
            how = {"calendar": "mkcalendar", "addressbook": "mkcol-ext", "plain": "mkcol-plain"}[kind]
        target = self.url(colpath)
        if how == "mkcalendar":
            s, r = self.call("mkcalendar", "MKCALENDAR", target, [X.XML_CT], X.mkcalendar(props))
        elif how == "mkcol-ext":
            s, r = self.call("mkcol-ext", "MKCOL", target, [X.XML_CT], X.mkcol_ext(kind, props))
        elif how == "mkcol-ext-rt-last":
            s, r = self.call("mkcol-ext", "MKCOL", target, [X.XML_CT], X.mkcol_ext(kind, props, rt_last=True))
        elif how == "mkcol-then-proppatch":
            # a plain collection that is made a calendar / address book afterwards
            s, r = self.call("mkcol", "MKCOL", target, [], None)
            if self.success(s.eff) and colpath not in self.cols:
                c = Col(colpath, "plain", "tree", "file")
                self.cols[colpath] = c
                par = self.parent_of(colpath)
                if par in self.cols:
                    self.cols[par].subcols.add(colpath)
                self.notify(s, r)
                s, r = self.call("proppatch-resourcetype", "PROPPATCH", target, [X.XML_CT], X.proppatch_resourcetype(kind, props))
                ok = False
                if r.status == 207:
                    try:
                        rs, _ = X.parse_multistatus(r.body)
                        ok = bool(rs) and all(v[0] == 200 for resp in rs for v in resp.props.values()) and "{DAV:}resourcetype" in rs[0].props
                    except Exception:
                        ok = False
                if ok:
                    c.kind = kind
                    for (k, v) in props:
                        c.props[k] = v
                    c.dirty = True
            self.notify(s, r)
            return s, r
        else:
            s, r = self.call("mkcol", "MKCOL", target, [], None)
        if self.success(s.eff) and colpath not in self.cols:
            c = Col(colpath, kind, "tree", "file")
            self.cols[colpath] = c
            par = self.parent_of(colpath)
            if par in self.cols:
                self.cols[par].subcols.add(colpath)
            for (k, v) in props:
                c.props[k] = v
        self.notify(s, r)
        return s, r

    def put(self, colpath, name, body, headers=(), op="put", ctype=None, uid=None, token=None):
        col = self.cols.get(colpath)
        ctype = ctype or ctype_for(name)
        hs = [("Content-Type", ctype)] + list(headers)
        s, r = self.call(op, "PUT", self.url(colpath, name), hs, body)
        self.last_write = {"step": s, "col": colpath, "name": name, "body": body}
        if col is not None:
            col.last_put_refused = not self.success(s.eff)
        if self.success(s.eff) and col is not None:
            self._apply_put(col, name, ctype_for(name), body, token, uid, r.header("ETag"))
        elif col is not None and name not in col.members and name not in col.graves:
            col.graves.append(name)
        self.notify(s, r)
        return s, r

    def _apply_put(self, col, name, ctype, body, token, uid, etag_hdr):
        old = col.members.get(name)
        m = Member(name, ctype, body, token, uid)
        if old is not None:
            m.history = old.history + [(old.uploaded, old.served, old.etag)]
            m.history = m.history[-6:]
        m.etag = etag_hdr
        col.members[name] = m
        if name in col.graves:
            col.graves.remove(name)
        col.dirty = True

    def post(self, colpath, body, ctype, uid=None, token=None):
        col = self.cols.get(colpath)
        s, r = self.call("post", "POST", self.url(colpath), [("Content-Type", ctype)], body)
        self.last_write = {"step": s, "col": colpath, "name": None, "body": body}
        if self.success(s.eff) and col is not None:
            loc = r.header("Location")
            s.note = {"location": loc}
            if loc:
                # the member name is the last segment of the Location (whether
                # the Location as a whole is a usable URL is C16's question)
                name = urllib.parse.unquote(loc.rsplit("/", 1)[-1])
                if name:
                    if name in col.members:
                        # add-member creates a *new* member: a Location that names an existing one means that one was replaced
                        s.note["replaced_existing"] = name
                        self.res.violation("post/add-member-replaced-an-existing-member",
                                           f"POST {self.url(colpath)} answered {s.status} with Location {loc!r}: {name!r} was a member before (token {col.members[name].token}); "
                                           f"add-member must create a new resource", {"history_tail": self.history_tail(12)}) if hasattr(self, "res") and self.res is not None else None
                    self._apply_put(col, name, ctype_for(name), body, token, uid, None)
                    s.note["name"] = name
        self.notify(s, r)
        return s, r

    def delete(self, colpath, name=None, headers=()):
        col = self.cols.get(colpath)
        target = self.url(colpath, name)
        s, r = self.call("delete" if name is not None else "delete-col", "DELETE", target, list(headers), None)
        if self.success(s.eff):
            if name is not None:
                if col is not None and name in col.members:
                    m_ = col.members[name]
                    if not hasattr(col, "deleted_bodies"):
                        col.deleted_bodies = []
                    col.deleted_bodies.append((name, m_.served if m_.served is not None else m_.uploaded, m_.uid))
                    del col.deleted_bodies[:-5]
                    del col.members[name]
                    col.dirty = True
                    if name not in col.graves:
                        col.graves.append(name)
                        del col.graves[:-6]
            else:
                for p in [p for p in self.cols if p.startswith(colpath)]:
                    del self.cols[p]
                par = self.parent_of(colpath)
                if par in self.cols:
                    self.cols[par].subcols.discard(colpath)
        self.notify(s, r)
        return s, r

    def proppatch(self, colpath, sets=(), removes=(), op="proppatch"):
        s, r = self.call(op, "PROPPATCH", self.url(colpath), [X.XML_CT], X.proppatch(sets, removes))
        results = {}
        if r.status == 207:
            try:
                rs, _ = X.parse_multistatus(r.body)
                for resp in rs:
                    for k, (st, el) in resp.props.items():
                        results[k] = st
            except X.MalformedXML:
                pass
        elif r.status == 200:
            # single propstat body
            try:
                import xml.etree.ElementTree as ET
                el = ET.fromstring(r.body)
                st = None
                names = []
                for d in el.iter():
                    if d.tag == "{DAV:}status":
                        st = X._status_code(d.text)
                    elif d.tag == "{DAV:}prop":
                        names = [p.tag for p in d]
                for k in names:
                    results[k] = st
            except Exception:
                pass
        s.note = {"propstat": results}
        col = self.cols.get(colpath)
        if col is not None:
            for k, v in sets:
                if results.get(k) == 200:
                    col.props[k] = v
            for k in removes:
                if results.get(k) == 200:
                    col.props.pop(k, None)
            if any(st == 200 for st in results.values()):
                # the collection has a metadata file / section of its own from now on (it stays when the
                # last property is removed again): part of the stored state, not of the property values
                col.patched = True
        self.notify(s, r)
        return s, r, results

    def rd(self, op, method, target, headers=(), body=None, record=True):
        """A read request: recorded and announced to the monitors."""
        s, r = self.call(op, method, target, headers, body, record=record)
        if record:
            self.notify(s, r)
        return s, r

    def get(self, colpath, name, method="GET", headers=(), record=True):
        return self.rd(method.lower(), method, self.url(colpath, name), list(headers), None, record=record)

    def propfind(self, target, props, depth="0", record=True, op="propfind"):
        return self.rd(op, "PROPFIND", target, [("Depth", depth), X.XML_CT], X.propfind(props), record=record)

    def report(self, colpath, body, depth="1", op="report", record=True):
        return self.rd(op, "REPORT", self.url(colpath), [("Depth", depth), X.XML_CT], body, record=record)

    # ---------------------------------------------------------------- audit
    def rel_name(self, href, colpath):
        """member name addressed by an emitted href, relative to collection"""
        path = urllib.parse.urlsplit(href).path if "://" in href else href
        path = urllib.parse.unquote(path)
        pre = self.prefix.rstrip("/") + colpath
        if path.startswith(pre):
            return path[len(pre):]
        return None

    def audit_col(self, colpath, deep=False):
        """Observe one collection through the protocol. Returns an
        observation dict; never touches the model."""
        obs = {"path": colpath, "listing_status": None, "members": {}, "subcols": [], "tags": {}, "views": {}, "problems": []}
        s, r = self.propfind(self.url(colpath), AUDIT_PROPS, depth="1", record=False, op="audit-propfind")
        obs["listing_status"] = s.eff
        if r.status != 207:
            return obs
        try:
            rs, _ = X.parse_multistatus(r.body)
        except X.MalformedXML as e:
            obs["problems"].append("listing: ill-formed XML: %s" % e)
            return obs
        listed = {}
        for resp in rs:
            nm = self.rel_name(resp.href or "", colpath)
            if nm is None:
                obs["problems"].append("listing: href %r outside the collection" % resp.href)
                continue
            if nm == "":
                for k in (X.P_CTAG_CS, X.P_CTAG_DAV, X.P_SYNCTOKEN, X.P_ETAG):
                    obs["tags"][k] = resp.prop_text(k)
                obs["rt"] = X.resourcetypes(resp)
                continue
            rt = X.resourcetypes(resp) or []
            if "{DAV:}collection" in rt or nm.endswith("/"):
                obs["subcols"].append(nm)
                continue
            if nm in listed:
                obs["problems"].append("listing: member %r listed twice" % nm)
            listed[nm] = {"etag_propfind": resp.prop_text(X.P_ETAG), "ctype": resp.prop_text(X.P_CTYPE)}
        obs["listed"] = listed
        # a second, separate read of the collection's own properties (after the tags were taken:
        # if reading a property writes, the next audit sees the tags moved with no write in between)
        s2, r2 = self.propfind(self.url(colpath), AUDIT_COLPROPS, depth="0", record=False, op="audit-colprops")
        obs["colprops"] = {}
        if r2.status == 207:
            try:
                rs2, _ = X.parse_multistatus(r2.body)
                if rs2:
                    obs["colprops"] = {k: rs2[0].prop_text(k) for k in AUDIT_COLPROPS}
            except X.MalformedXML:
                pass
        return obs

    def fetch(self, colpath, name, method="GET"):
        s, r = self.get(colpath, name, method=method, record=False)
        return s.eff, r.header("ETag"), r.body, r

    def full_audit(self, touched=None, deep=False):
        """Audit collections (all, or only `touched`) against the model;
        feeds monitors with the observation."""
        paths = sorted(self.cols) if touched is None else [p for p in touched if p in self.cols]
        out = {}
        for p in paths:
            col = self.cols[p]
            obs = self.audit_col(p)
            names = set(col.members) | set(obs.get("listed", {})) | set(col.graves[-3:])
            # the store's own metadata file is never a member: a GET on its name must not serve it
            names.add(".xandikos")
            for nm in sorted(names):
                st, etag, body, r = self.fetch(p, nm)
                obs["members"][nm] = {"status": st, "etag_get": etag, "body": body if st == 200 else None, "sha": sha(body) if st == 200 else None}
            out[p] = obs
        for m in self.monitors:
            m.on_audit(self, out, touched is None)
        # adopt what was served (for later ETag / fixed-point logic)
        for p, obs in out.items():
            col = self.cols.get(p)
            if col is None:
                continue
            for nm, mo in obs["members"].items():
                mem = col.members.get(nm)
                if mem is not None and mo["status"] == 200:
                    mem.served = mo["body"]
                    mem.etag = mo["etag_get"]
            col.dirty = False
        return out

    # probe paths that must be 404 (never created / deleted)
    def probe_absent(self, colpath, name):
        st, etag, body, r = self.fetch(colpath, name)
        return st

    def history_tail(self, k=25):
        return [s.brief() for s in self.steps[-k:]]
