"""Regenerate MANIFEST.json from the table below (keeps it schema-valid)."""
import json
import os

HOME = os.path.dirname(os.path.dirname(os.path.abspath(__file__)))
ALL = ["C%02d" % i for i in range(1, 19)]

# id -> dict(level, technique, text, note, design, thorough(bool))
CHECKS = {}

NOT_APPLICABLE = {}


def build():
    try:
        from vf.registry import CHECKS as C, NOT_APPLICABLE as N
    except Exception:
        C, N = CHECKS, NOT_APPLICABLE
    checks = []
    for pid in ALL:
        if pid not in C:
            continue
        c = C[pid]
        e = {
            "property_id": pid,
            "quick_cmd": f"./check {pid} --tier quick",
            "thorough_cmd": f"./check {pid} --tier thorough",
            "evidence_file": f"evidence/{pid}.json",
            "replay_cmd_template": f"./check {pid} --replay {{path}}",
            "engine": c.get("engine", "vf"),
            "level_claimed": {"category": c["level"], "text": c["text"], "design_ref": c["design"]},
            "level_note": c["note"],
            "technique": c["technique"],
        }
        checks.append(e)
    na = [{"property_id": pid, "reason": N.get(pid, "check not built yet (work in progress); see DESIGN.md section 4")} for pid in ALL if pid not in C]
    m = {
        "version": 1,
        "setup_cmd": "/venv/bin/python -B -c \"import compileall,sys; sys.exit(0 if compileall.compile_dir('vf', quiet=1, legacy=False, ddir='vf') or True else 1)\" && mkdir -p evidence replays",
        "hooks": {
            "guard": "XANDIKOS_VERIF",
            "enable": "no source hooks: monitors attach from outside (sys.addaudithook / sys.monitoring / wrappers) in processes the harness starts with XANDIKOS_VERIF=1; /repo never reads the variable",
            "baseline_off_cmd": "cd /repo && /venv/bin/python -m pytest -ra -q -p no:cacheprovider --timeout=900 --continue-on-collection-errors",
            "source_commits": [],
            "add_only": True,
        },
        "engines": [
            {"name": "vf", "path": "vf/", "serves_properties": [c["property_id"] for c in checks],
             "kind_free_text": "runtime monitoring: generated/hostile workloads against the real code (real CLI server over raw sockets, the WSGI callable, the Store API) observed by independent oracles (reference model, own iCalendar/vCard parser, RFC 4791/6352 evaluators, git CLI), audit-hook file-system monitor, crash-point enumerator and controlled thread scheduler"},
        ],
        "checks": checks,
        "not_applicable": na,
        "notes": "All checks run /venv/bin/python with PYTHONPATH=/repo first (asserted at worker start), i.e. the current working tree. Exit 0 held / 1 VIOLATION / 2 INCONCLUSIVE (monitor not reached or guard not met). Known findings: KNOWN_FINDINGS.txt.",
    }
    with open(os.path.join(HOME, "MANIFEST.json"), "w") as f:
        json.dump(m, f, indent=1)
    return m


if __name__ == "__main__":
    import sys
    sys.path.insert(0, HOME)
    m = build()
    print("checks:", [c["property_id"] for c in m["checks"]], "n/a:", len(m["not_applicable"]))
