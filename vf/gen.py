"""Seeded generators: member names, iCalendar / vCard bodies (valid and the
invalid classes of C14), property values, request targets."""
import random
import urllib.parse

# ---------------------------------------------------------------- names

BENIGN = ["a", "b", "c", "d", "e", "f", "item1", "item2", "x-y_z", "Z9"]
HOSTILE_ATOMS = [" ", "%", "%41", "%2F", "#", "?", ";", "+", "&", "=", "@", ",", "'", "(", ")", "~", ":", "!", "$", "*",
                 "é", "ü", "ß", "日本", "😀", "e\u0301", "\u00e9", "İ", "Ω", "[", "]", "{", "}", "|", "^", "`", "\"", "<", ">", "\\"]


def member_name(rng, ext, hostile=0.3, pool=None):
    """A member file name (no '/', no NUL, not starting with '.')."""
    if pool is not None:
        return rng.choice(pool)
    if rng.random() >= hostile:
        return rng.choice(BENIGN) + ext
    k = rng.randint(1, 3)
    s = rng.choice(["", "n", "Name", "x"])
    for _ in range(k):
        s += rng.choice(HOSTILE_ATOMS) + rng.choice(["", "a", "1", "Zz"])
    if rng.random() < 0.03:
        s += "L" * 150
    s = s.lstrip(".") or "n"
    return s + ext


def name_pool(rng, n, exts=(".ics",), hostile=0.3):
    out = []
    seen = set()
    while len(out) < n:
        nm = member_name(rng, rng.choice(exts), hostile)
        if nm in seen:
            continue
        seen.add(nm)
        out.append(nm)
    return out


def quote_name(name):
    """How a well-behaved client puts a name into a request target."""
    return urllib.parse.quote(name, safe="")


# ---------------------------------------------------------------- text values

TEXT_ATOMS = ["hello", "World", "a b", "x,y", "semi;colon", "back\\slash", "new\nline", "Ünï©ödé", "日本語", "😀", "q\"uote", "co:lon",
              "long " * 20, "tab\there", "100%", "a=b", "[x]", "#hash", "'apos'", "<tag>&amp;"]


def esc_text(s):
    return s.replace("\\", "\\\\").replace(";", "\\;").replace(",", "\\,").replace("\n", "\\n")


def rand_text(rng, n=None):
    n = n or rng.randint(1, 3)
    return " ".join(rng.choice(TEXT_ATOMS) for _ in range(n))


def fold(line, rng, crlf="\r\n"):
    """Fold a content line at random legal positions (never inside a UTF-8
    sequence: we fold on characters and only lines > 20 chars)."""
    b = line
    if len(b) <= 20 or rng.random() < 0.5:
        # standard folding at 75 octets is what libraries emit; keep lines
        # shorter than 75 octets by folding where needed
        return _fold75(b, crlf)
    out = []
    i = 0
    while i < len(b):
        step = rng.randint(10, 60)
        out.append(b[i:i + step])
        i += step
    return (crlf + " ").join(out)


def _fold75(s, crlf):
    out = []
    cur = ""
    curlen = 0
    for ch in s:
        l = len(ch.encode("utf-8"))
        if curlen + l > 73:
            out.append(cur)
            cur = ch
            curlen = l + 1
        else:
            cur += ch
            curlen += l
    out.append(cur)
    return (crlf + " ").join(out)


# ---------------------------------------------------------------- iCalendar

UID_POOL = ["u1", "abc", "ABC", "with space", "esc,comma;semi", "üñí-¢", "uid-" + "L" * 150, "u2", "u3", "a@b.example"]

VTIMEZONE_AMS = [
    "BEGIN:VTIMEZONE", "TZID:Europe/Amsterdam", "BEGIN:STANDARD", "DTSTART:19701025T030000", "TZOFFSETFROM:+0200", "TZOFFSETTO:+0100",
    "TZNAME:CET", "RRULE:FREQ=YEARLY;BYDAY=-1SU;BYMONTH=10", "END:STANDARD", "BEGIN:DAYLIGHT", "DTSTART:19700329T020000",
    "TZOFFSETFROM:+0100", "TZOFFSETTO:+0200", "TZNAME:CEST", "RRULE:FREQ=YEARLY;BYDAY=-1SU;BYMONTH=3", "END:DAYLIGHT", "END:VTIMEZONE",
]


def _dt(rng, y=None):
    y = y or rng.randint(2019, 2026)
    return "%04d%02d%02dT%02d%02d%02d" % (y, rng.randint(1, 12), rng.randint(1, 28), rng.randint(0, 23), rng.randint(0, 59), rng.randint(0, 59))


def _d(rng):
    return "%04d%02d%02d" % (rng.randint(2019, 2026), rng.randint(1, 12), rng.randint(1, 28))


def ical_lines(rng, uid, token, kind=None, rich=True, summary=None):
    kind = kind or rng.choice(["VEVENT", "VEVENT", "VTODO", "VJOURNAL"])
    L = ["BEGIN:VCALENDAR", "VERSION:2.0", "PRODID:-//vf//gen//EN"]
    if rich and rng.random() < 0.2:
        # RFC 7986 calendar-level UID: not the UID of the calendar object resource
        L.append("UID:" + rng.choice(["caluid-1", "caluid-2", "u1", "abc"]))
    use_tz = rich and rng.random() < 0.25
    if use_tz:
        L += VTIMEZONE_AMS
    L.append("BEGIN:" + kind)
    if uid is not None:
        L.append("UID:" + esc_text(uid))
    L.append("DTSTAMP:" + _dt(rng) + "Z")
    form = rng.choice(["utc", "float", "date", "tzid"]) if rich else "utc"
    if form == "tzid" and not use_tz:
        form = "utc"
    if kind in ("VEVENT", "VTODO", "VJOURNAL"):
        if form == "utc":
            L.append("DTSTART:" + _dt(rng) + "Z")
        elif form == "float":
            L.append("DTSTART:" + _dt(rng))
        elif form == "date":
            L.append("DTSTART;VALUE=DATE:" + _d(rng))
        else:
            L.append("DTSTART;TZID=Europe/Amsterdam:" + _dt(rng))
    if kind == "VEVENT" and rich and form != "date" and rng.random() < 0.5:
        L.append("DURATION:" + rng.choice(["PT1H", "PT30M", "P1D", "PT1H30M", "P2DT3H"]))
    L.append("SUMMARY:" + esc_text(summary if summary is not None else rand_text(rng)))
    L.append("X-VF-ID:" + token)
    if rich:
        if rng.random() < 0.5:
            L.append("DESCRIPTION:" + esc_text(rand_text(rng, rng.randint(1, 8))))
        if rng.random() < 0.3:
            L.append("CATEGORIES:" + ",".join(esc_text(rng.choice(["work", "home", "Ünï", "a b"])) for _ in range(rng.randint(1, 3))))
        if rng.random() < 0.3:
            L.append("LOCATION;LANGUAGE=en:" + esc_text(rand_text(rng, 1)))
        if rng.random() < 0.25 and kind == "VEVENT":
            L.append("ATTENDEE;CN=\"Doe, John\";ROLE=REQ-PARTICIPANT:mailto:john@example.com")
            if rng.random() < 0.6:
                # repeated properties, deliberately not in sorted order
                L.append("ATTENDEE;CN=Ann:mailto:ann@example.com")
                if rng.random() < 0.5:
                    L.append("ATTENDEE;CN=Zed:mailto:zed@example.com")
                    L.append("ATTENDEE;CN=Bob:mailto:bob@example.com")
        if rng.random() < 0.15:
            L.append("COMMENT:second thought")
            L.append("COMMENT:a first thought")
        if rng.random() < 0.2 and kind == "VEVENT" and form != "date":
            L.append("RRULE:" + rng.choice(["FREQ=DAILY;COUNT=3", "FREQ=WEEKLY;BYDAY=MO,WE;COUNT=5", "FREQ=MONTHLY;INTERVAL=2;COUNT=4"]))
            override = form == "utc" and uid is not None and rng.random() < 0.6
            if form == "utc" and rng.random() < 0.5:
                L.append("EXDATE:20300105T100000Z")
                L.append("EXDATE:20300102T100000Z")
        if rng.random() < 0.2 and kind == "VTODO":
            L.append("STATUS:" + rng.choice(["NEEDS-ACTION", "COMPLETED", "IN-PROCESS"]))
            L.append("PERCENT-COMPLETE:" + str(rng.randint(0, 100)))
        if rng.random() < 0.2:
            L.append("CLASS:" + rng.choice(["PUBLIC", "PRIVATE"]))
        if rng.random() < 0.15:
            L.append("X-CUSTOM-PROP;X-PARAM=pv:" + esc_text(rand_text(rng, 1)))
        if rng.random() < 0.2 and kind in ("VEVENT", "VTODO"):
            L += ["BEGIN:VALARM", "ACTION:DISPLAY", "DESCRIPTION:" + esc_text(rand_text(rng, 1)), "TRIGGER:-PT15M", "END:VALARM"]
    L.append("END:" + kind)
    if rich and locals().get("override"):
        # an overridden instance of the recurring event: same UID, identified by RECURRENCE-ID
        start = [l for l in L if l.startswith("DTSTART:")][0][8:]
        L += ["BEGIN:VEVENT", "UID:" + esc_text(uid), "DTSTAMP:" + _dt(rng) + "Z", "RECURRENCE-ID:" + start, "DTSTART:" + start[:9] + "235900Z", "SUMMARY:moved instance", "END:VEVENT"]
    L.append("END:VCALENDAR")
    return L


def render(lines, rng, crlf=None, do_fold=True, trailing=True):
    if crlf is None:
        crlf = "\r\n" if rng.random() < 0.8 else "\n"
    out = [fold(l, rng, crlf) if do_fold else l for l in lines]
    s = crlf.join(out)
    if trailing:
        s += crlf
    return s.encode("utf-8")


def ical(rng, uid, token, big=0, **kw):
    lines = ical_lines(rng, uid, token, **kw)
    if big:
        # a large object whose distinguishing bytes come last (tail-only changes)
        i = len(lines) - 2
        lines.insert(i, "DESCRIPTION:" + ("lorem ipsum " * (big // 12)) + " tail " + token)
        lines = [l for k, l in enumerate(lines) if not (l.startswith("DESCRIPTION:") and k != i)]
    return render(lines, rng)


# ---------------------------------------------------------------- vCard


def vcard_lines(rng, uid, token, fn=None, rich=True):
    fn = fn if fn is not None else rng.choice(["John Doe", "Jörg Müller", "日本 太郎", "Ann O'Neil", "X Æ A-12", "émile zola"])
    L = ["BEGIN:VCARD", "VERSION:3.0"]
    L.append("FN:" + esc_text(fn))
    parts = fn.split(" ")
    L.append("N:" + esc_text(parts[-1]) + ";" + esc_text(parts[0]) + ";;;")
    if uid is not None:
        L.append("UID:" + esc_text(uid))
    L.append("NOTE:" + token)
    if rich:
        if rng.random() < 0.6:
            L.append("EMAIL;TYPE=INTERNET,WORK:" + rng.choice(["john@example.com", "jörg@exämple.de", "UPPER@EXAMPLE.COM"]))
        if rng.random() < 0.5:
            L.append("TEL;TYPE=CELL:" + rng.choice(["+1 555 0100", "+31-20-1234567"]))
        if rng.random() < 0.3:
            L.append("item1.ADR;TYPE=HOME:;;Main St 1;Springfield;;12345;USA")
        if rng.random() < 0.3:
            L.append("NICKNAME:" + esc_text(rng.choice(["Johnny", "Jö", "太郎"])))
        if rng.random() < 0.3:
            L.append("ORG:" + rng.choice(["ACME Inc.;R&D", "Ünicode GmbH"]))
    L.append("END:VCARD")
    return L


def vcard(rng, uid, token, big=0, **kw):
    lines = vcard_lines(rng, uid, token, **kw)
    if big:
        lines.insert(len(lines) - 1, "X-BIG:" + ("lorem ipsum " * (big // 12)) + " tail " + token)
    crlf = "\r\n" if rng.random() < 0.8 else "\n"
    trailing = rng.random() < 0.8
    return render(lines, rng, crlf=crlf, do_fold=True, trailing=trailing)


def other_file(rng, token):
    kind = rng.choice(["text", "bin", "empty-ish"])
    if kind == "text":
        return ("note " + token + "\n" + rand_text(rng, 3)).encode("utf-8")
    if kind == "bin":
        return token.encode() + bytes(rng.randrange(256) for _ in range(rng.randint(1, 200)))
    return token.encode()


# ---------------------------------------------------------------- invalid bodies (C14)

FORBIDDEN_CTRL = ["\x00", "\x01", "\x02", "\x07", "\x08", "\x0b", "\x0c", "\x0e", "\x1b", "\x1f", "\x7f"]


def invalid_ical(rng, cls, uid="inv", token="t"):
    """-> bytes, or None if the class is not applicable this time."""
    good = ical_lines(rng, uid, token, rich=False)
    if cls == "arbitrary":
        return rng.choice([b"hello world", b"<html></html>", b"\x00\x01\x02", b"BEGIN", b"{\"json\": 1}", "ünïcödé tëxt".encode()])
    if cls == "empty":
        return b""
    if cls == "truncated-line":
        k = rng.randint(1, len(good) - 1)
        return ("\r\n".join(good[:k]) + "\r\n").encode()
    if cls == "truncated-byte":
        b = ("\r\n".join(good) + "\r\n").encode()
        k = rng.randint(1, len(b) - 14)  # at least END:VCALENDAR damaged
        return b[:k]
    if cls == "control-char":
        c = rng.choice(FORBIDDEN_CTRL)
        lines = [("SUMMARY:bad" + c + "char") if l.startswith("SUMMARY:") else l for l in good]
        return ("\r\n".join(lines) + "\r\n").encode("utf-8")
    if cls == "wrong-nesting":
        lines = [l for l in good]
        i = lines.index("END:VCALENDAR")
        j = [k for k, l in enumerate(lines) if l.startswith("END:V") and l != "END:VCALENDAR"][0]
        lines[i], lines[j] = lines[j], lines[i]
        return ("\r\n".join(lines) + "\r\n").encode()
    if cls == "no-colon-line":
        lines = good[:4] + ["THIS LINE HAS NO COLON"] + good[4:]
        return ("\r\n".join(lines) + "\r\n").encode()
    if cls == "vcard-as-ical":
        return ("\r\n".join(vcard_lines(rng, uid, token, rich=False)) + "\r\n").encode()
    raise ValueError(cls)


INVALID_ICAL_CLASSES = ["arbitrary", "empty", "truncated-line", "truncated-byte", "control-char", "wrong-nesting", "no-colon-line", "vcard-as-ical"]


def invalid_vcard(rng, cls, uid="inv", token="t"):
    good = vcard_lines(rng, uid, token, rich=False)
    if cls == "arbitrary":
        return rng.choice([b"hello world", b"<html></html>", b"\x00\x01", b"BEGIN:VCARD", b"FN:x"])
    if cls == "empty":
        return b""
    if cls == "no-begin":
        return ("\r\n".join(good[1:]) + "\r\n").encode()
    if cls == "no-end":
        return ("\r\n".join(good[:-1]) + "\r\n").encode()
    if cls == "truncated-byte":
        b = ("\r\n".join(good) + "\r\n").encode()
        return b[:rng.randint(1, len(b) - 6)]
    if cls == "ical-as-vcard":
        return ("\r\n".join(ical_lines(rng, uid, token, rich=False)) + "\r\n").encode()
    raise ValueError(cls)


INVALID_VCARD_CLASSES = ["arbitrary", "empty", "no-begin", "no-end", "truncated-byte", "ical-as-vcard"]
