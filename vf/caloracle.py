"""Independent evaluator of CALDAV:filter (RFC 4791 sections 9.7.1-9.7.5 and
the 9.9 time-range tables) over vf/icl.py components.  Written from the RFC
text (see DESIGN.md Appendix A); shares no code with xandikos or icalendar."""
import re
from datetime import date, datetime, time, timedelta, timezone
from zoneinfo import ZoneInfo

UTC = timezone.utc
NEG_INF = datetime(1, 1, 1, tzinfo=UTC)
POS_INF = datetime(9999, 12, 31, 23, 59, 59, tzinfo=UTC)


class Undefined(Exception):
    """The RFC tables do not define this combination."""


# ---------------------------------------------------------------- values

def parse_duration(v):
    m = re.fullmatch(r"([+-])?P(?:(\d+)W)?(?:(\d+)D)?(?:T(?:(\d+)H)?(?:(\d+)M)?(?:(\d+)S)?)?", v.strip())
    if not m:
        raise ValueError("duration %r" % v)
    sign = -1 if m.group(1) == "-" else 1
    w, d, h, mi, s = (int(x) if x else 0 for x in m.groups()[1:])
    return sign * timedelta(weeks=w, days=d, hours=h, minutes=mi, seconds=s)


def parse_dt(value, tzid, default_tz):
    """-> (instant in UTC, is_date)"""
    v = value.strip()
    if re.fullmatch(r"\d{8}", v):
        d = date(int(v[:4]), int(v[4:6]), int(v[6:8]))
        return datetime.combine(d, time(), tzinfo=default_tz).astimezone(UTC), True
    m = re.fullmatch(r"(\d{4})(\d{2})(\d{2})T(\d{2})(\d{2})(\d{2})(Z?)", v)
    if not m:
        raise ValueError("date-time %r" % v)
    y, mo, d, h, mi, s = (int(x) for x in m.groups()[:6])
    naive = datetime(y, mo, d, h, mi, s)
    if m.group(7) == "Z":
        return naive.replace(tzinfo=UTC), False
    if tzid:
        return naive.replace(tzinfo=ZoneInfo(tzid)).astimezone(UTC), False
    return naive.replace(tzinfo=default_tz).astimezone(UTC), False


def prop_instant(p, default_tz):
    tz = p.param("TZID")
    return parse_dt(p.value, tz[0] if tz else None, default_tz)


def next_day_start(p, default_tz):
    """DTSTART+P1D for a DATE value: a nominal day, i.e. the start of the next
    calendar day in the applicable timezone (RFC 5545 3.3.6)"""
    v = p.value.strip()
    d = date(int(v[:4]), int(v[4:6]), int(v[6:8])) + timedelta(days=1)
    return datetime.combine(d, time(), tzinfo=default_tz).astimezone(UTC)


# ---------------------------------------------------------------- time-range tables (section 9.9)

def tr_vevent(c, start, end, tz):
    ds = c.first("DTSTART")
    if ds is None:
        raise Undefined("VEVENT without DTSTART")
    dtstart, is_date = prop_instant(ds, tz)
    de, du = c.first("DTEND"), c.first("DURATION")
    if de is not None and du is not None:
        raise Undefined("DTEND and DURATION")
    if de is not None:
        dtend, _ = prop_instant(de, tz)
        return start < dtend and end > dtstart
    if du is not None:
        d = parse_duration(du.value)
        if d > timedelta(0):
            return start < dtstart + d and end > dtstart
        return start <= dtstart and end > dtstart
    if not is_date:
        return start <= dtstart and end > dtstart
    return start < next_day_start(ds, tz) and end > dtstart


def tr_vtodo(c, start, end, tz):
    ds, du, due = c.first("DTSTART"), c.first("DURATION"), c.first("DUE")
    comp, cre = c.first("COMPLETED"), c.first("CREATED")
    if ds is not None:
        dtstart, _ = prop_instant(ds, tz)
        if du is not None and due is None:
            e = dtstart + parse_duration(du.value)
            return start <= e and (end > dtstart or end >= e)
        if due is not None and du is None:
            d, _ = prop_instant(due, tz)
            return (start < d or start <= dtstart) and (end > dtstart or end >= d)
        if du is None and due is None:
            return start <= dtstart and end > dtstart
        raise Undefined("VTODO with DTSTART, DURATION and DUE")
    if due is not None:
        d, _ = prop_instant(due, tz)
        return start < d and end >= d
    if comp is not None and cre is not None:
        co, _ = prop_instant(comp, tz)
        cr, _ = prop_instant(cre, tz)
        return (start <= cr or start <= co) and (end >= cr or end >= co)
    if comp is not None:
        co, _ = prop_instant(comp, tz)
        return start <= co and end >= co
    if cre is not None:
        cr, _ = prop_instant(cre, tz)
        return end > cr
    return True


def tr_vjournal(c, start, end, tz):
    ds = c.first("DTSTART")
    if ds is None:
        return False
    dtstart, is_date = prop_instant(ds, tz)
    if not is_date:
        return start <= dtstart and end > dtstart
    return start < next_day_start(ds, tz) and end > dtstart


def tr_vfreebusy(c, start, end, tz):
    ds, de = c.first("DTSTART"), c.first("DTEND")
    if ds is not None and de is not None:
        a, _ = prop_instant(ds, tz)
        b, _ = prop_instant(de, tz)
        return start <= b and end > a
    for fb in c.get("FREEBUSY"):
        for per in fb.value.split(","):
            s, _, e = per.partition("/")
            ps, _ = parse_dt(s, None, UTC)
            if e.startswith("P") or e.startswith("+P") or e.startswith("-P"):
                pe = ps + parse_duration(e)
            else:
                pe, _ = parse_dt(e, None, UTC)
            if start < pe and end > ps:
                return True
    return False


TABLES = {"VEVENT": tr_vevent, "VTODO": tr_vtodo, "VJOURNAL": tr_vjournal, "VFREEBUSY": tr_vfreebusy}


# ---------------------------------------------------------------- text-match

def casemap_ascii(s):
    return "".join(chr(ord(ch) - 32) if "a" <= ch <= "z" else ch for ch in s)


# "substring" is the RFC's definition; "equals" exists only so that a monitor can
# recognise the known deviation "text-match evaluated as equality" by mechanism
TEXT_MODE = "substring"


def text_match(tm, value):
    """RFC 4791 9.7.5: substring match under the collation; negate-condition."""
    col = tm.get("collation") or "i;ascii-casemap"
    needle, hay = tm["text"] or "", value
    if col == "i;ascii-casemap":
        needle, hay = casemap_ascii(needle), casemap_ascii(hay)
    elif col == "i;octet":
        pass
    elif col == "i;unicode-casemap":
        needle, hay = needle.casefold(), hay.casefold()
    else:
        raise Undefined("collation " + col)
    r = (needle == hay) if TEXT_MODE == "equals" else (needle in hay)
    return (not r) if tm.get("negate") else r


# ---------------------------------------------------------------- filters

def match_param(pf, prop):
    vals = prop.param(pf["name"])
    if pf.get("is_not_defined"):
        return vals is None
    if vals is None:
        return False
    tm = pf.get("text_match")
    if tm is None:
        return True
    return any(text_match(tm, v) for v in vals)


def match_prop(pf, comp, tz):
    props = comp.get(pf["name"])
    if pf.get("is_not_defined"):
        return not props
    if not props:
        return False
    if len(props) > 1:
        raise Undefined("several instances of " + pf["name"])
    p = props[0]
    tr = pf.get("time_range")
    if tr is not None:
        inst, _ = prop_instant(p, tz)
        s, e = tr
        if inst == s or inst == e:
            raise Undefined("prop-filter time-range boundary")
        if not (s < inst < e):
            return False
    tm = pf.get("text_match")
    if tm is not None:
        if pf["name"].upper() == "CATEGORIES":
            from . import icl
            vals = [icl.unescape_text(x) for x in icl.split_unescaped(p.value, ",")]
            if tm.get("negate"):
                raise Undefined("negated text-match on a multi-valued property")
            if not any(text_match(tm, v) for v in vals):
                return False
        elif not text_match(tm, p.text):
            return False
    for q in pf.get("params", []):
        if not match_param(q, p):
            return False
    return True


def match_comp_in_scope(cf, candidates, tz):
    """candidates: the components of the current scope"""
    named = [c for c in candidates if c.name == cf["name"].upper()]
    if cf.get("is_not_defined"):
        return not named
    return any(match_comp(cf, c, tz) for c in named)


def match_comp(cf, comp, tz):
    tr = cf.get("time_range")
    if tr is not None:
        fn = TABLES.get(comp.name)
        if fn is None:
            raise Undefined("time-range on " + comp.name)
        if not fn(comp, tr[0], tr[1], tz):
            return False
    for ch in cf.get("children", []):
        if ch["type"] == "comp":
            if not match_comp_in_scope(ch, comp.subs, tz):
                return False
        else:
            if not match_prop(ch, comp, tz):
                return False
    return True


def matches(flt, cal, tz):
    """flt: top-level comp-filter (name VCALENDAR); cal: icl Comp VCALENDAR"""
    return match_comp_in_scope(flt, [cal], tz)


# ---------------------------------------------------------------- XML rendering

def fmt_utc(dt):
    return dt.astimezone(UTC).strftime("%Y%m%dT%H%M%SZ")


def render(f):
    from xml.sax.saxutils import escape, quoteattr
    if f["type"] == "comp":
        inner = ""
        if f.get("is_not_defined"):
            inner += "<C:is-not-defined/>"
        if f.get("time_range") is not None:
            s, e = f["time_range"]
            attrs = ""
            if s is not None and s != NEG_INF:
                attrs += ' start="%s"' % fmt_utc(s)
            if e is not None and e != POS_INF:
                attrs += ' end="%s"' % fmt_utc(e)
            inner += "<C:time-range%s/>" % attrs
        for ch in f.get("children", []):
            inner += render(ch)
        return "<C:comp-filter name=%s>%s</C:comp-filter>" % (quoteattr(f["name"]), inner)
    if f["type"] == "prop":
        inner = ""
        if f.get("is_not_defined"):
            inner += "<C:is-not-defined/>"
        if f.get("time_range") is not None:
            s, e = f["time_range"]
            inner += '<C:time-range start="%s" end="%s"/>' % (fmt_utc(s), fmt_utc(e))
        if f.get("text_match") is not None:
            inner += render_tm(f["text_match"])
        for q in f.get("params", []):
            pin = "<C:is-not-defined/>" if q.get("is_not_defined") else (render_tm(q["text_match"]) if q.get("text_match") else "")
            inner += "<C:param-filter name=%s>%s</C:param-filter>" % (quoteattr(q["name"]), pin)
        return "<C:prop-filter name=%s>%s</C:prop-filter>" % (quoteattr(f["name"]), inner)
    raise ValueError(f)


def render_tm(tm):
    from xml.sax.saxutils import escape
    attrs = ""
    if tm.get("collation"):
        attrs += ' collation="%s"' % tm["collation"]
    if tm.get("negate"):
        attrs += ' negate-condition="yes"'
    return "<C:text-match%s>%s</C:text-match>" % (attrs, escape(tm["text"]))


def selftest():
    """RFC 4791 examples (7.8.1-7.8.x style vectors) + table sanity; raises on failure."""
    from . import icl
    ev = icl.parse_calendar(b"BEGIN:VCALENDAR\r\nVERSION:2.0\r\nBEGIN:VEVENT\r\nUID:1\r\nDTSTART:20060104T100000Z\r\nDURATION:PT1H\r\nSUMMARY:Event #3\r\nEND:VEVENT\r\nEND:VCALENDAR\r\n")
    def f(tr):
        return {"type": "comp", "name": "VCALENDAR", "children": [{"type": "comp", "name": "VEVENT", "time_range": tr}]}
    d = lambda s: parse_dt(s, None, UTC)[0]
    assert matches(f((d("20060104T000000Z"), d("20060105T000000Z"))), ev, UTC)
    assert not matches(f((d("20060104T110000Z"), d("20060105T000000Z"))), ev, UTC)      # start == DTSTART+DURATION
    assert matches(f((d("20060104T105959Z"), d("20060105T000000Z"))), ev, UTC)
    assert not matches(f((d("20060103T000000Z"), d("20060104T100000Z"))), ev, UTC)      # end == DTSTART
    todo = icl.parse_calendar(b"BEGIN:VCALENDAR\r\nBEGIN:VTODO\r\nUID:2\r\nDTSTART:20060104T100000Z\r\nDUE:20060106T100000Z\r\nEND:VTODO\r\nEND:VCALENDAR\r\n")
    g = lambda tr: {"type": "comp", "name": "VCALENDAR", "children": [{"type": "comp", "name": "VTODO", "time_range": tr}]}
    assert not matches(g((d("20060101T000000Z"), d("20060102T000000Z"))), todo, UTC)    # range entirely before
    assert matches(g((d("20060105T000000Z"), d("20060105T010000Z"))), todo, UTC)
    assert not matches(g((d("20060107T000000Z"), d("20060108T000000Z"))), todo, UTC)
    nd = {"type": "comp", "name": "VCALENDAR", "children": [{"type": "comp", "name": "VTODO", "is_not_defined": True}]}
    assert matches(nd, ev, UTC) and not matches(nd, todo, UTC)
    tm = {"type": "comp", "name": "VCALENDAR", "children": [{"type": "comp", "name": "VEVENT", "children": [{"type": "prop", "name": "SUMMARY", "text_match": {"text": "event"}}]}]}
    assert matches(tm, ev, UTC)
    assert parse_duration("P1DT2H") == timedelta(days=1, hours=2) and parse_duration("-PT15M") == -timedelta(minutes=15)
    return True
