"""Run the real xandikos CLI (`python -m xandikos serve ...`) of $VERIF_REPO,
optionally with the monitoring agent attached (XANDIKOS_VERIF=1)."""
import os
import runpy
import sys

home = os.environ.get("VERIF_HOME")
repo = os.environ.get("VERIF_REPO", "/repo")
for p in (home, repo):
    if p and p not in sys.path:
        sys.path.insert(0, p)
# this script's own directory must not shadow anything
sys.path[:] = [p for p in sys.path if os.path.abspath(p or ".") != os.path.dirname(os.path.abspath(__file__))]
if os.environ.get("VF_UMASK"):
    os.umask(int(os.environ["VF_UMASK"], 8))     # the file-creation mask of the account / service unit the server runs under
if os.environ.get("XANDIKOS_VERIF") == "1":
    from vf import agent
    agent.install_from_env()
import xandikos
assert os.path.realpath(xandikos.__file__).startswith(os.path.realpath(repo) + os.sep), xandikos.__file__
sys.argv = ["xandikos", "serve"] + sys.argv[1:]
runpy.run_module("xandikos.__main__", run_name="__main__", alter_sys=True)
