"""Request builders and a multistatus parser (xml.etree only)."""
import re
import xml.etree.ElementTree as ET
from xml.sax.saxutils import escape as xesc, quoteattr

DAV = "DAV:"
CAL = "urn:ietf:params:xml:ns:caldav"
CARD = "urn:ietf:params:xml:ns:carddav"
CS = "http://calendarserver.org/ns/"
ICAL = "http://apple.com/ns/ical/"
INF = "http://inf-it.com/ns/ab/"

NS = f'xmlns:D="{DAV}" xmlns:C="{CAL}" xmlns:A="{CARD}" xmlns:CS="{CS}" xmlns:I="{ICAL}" xmlns:INF="{INF}"'
XML_CT = ("Content-Type", "text/xml; charset=utf-8")

# clark name -> prefixed
PFX = {DAV: "D", CAL: "C", CARD: "A", CS: "CS", ICAL: "I", INF: "INF"}


def q(clark):
    m = re.match(r"\{(.*)\}(.*)", clark)
    return f"{PFX[m.group(1)]}:{m.group(2)}"


def propfind(props=None, allprop=False):
    if allprop:
        inner = "<D:allprop/>"
    else:
        inner = "<D:prop>" + "".join(f"<{q(p)}/>" for p in props) + "</D:prop>"
    return f'<?xml version="1.0" encoding="utf-8"?><D:propfind {NS}>{inner}</D:propfind>'.encode()


P_RESOURCETYPE = "{DAV:}resourcetype"
P_ETAG = "{DAV:}getetag"
P_CTYPE = "{DAV:}getcontenttype"
P_DISPLAYNAME = "{DAV:}displayname"
P_SYNCTOKEN = "{DAV:}sync-token"
P_CTAG_CS = "{http://calendarserver.org/ns/}getctag"
P_CTAG_DAV = "{DAV:}getctag"
P_CUP = "{DAV:}current-user-principal"
P_CALHOME = "{urn:ietf:params:xml:ns:caldav}calendar-home-set"
P_ABHOME = "{urn:ietf:params:xml:ns:carddav}addressbook-home-set"
P_CALDESC = "{urn:ietf:params:xml:ns:caldav}calendar-description"
P_CALCOLOR = "{http://apple.com/ns/ical/}calendar-color"
P_CALORDER = "{http://apple.com/ns/ical/}calendar-order"
P_ABDESC = "{urn:ietf:params:xml:ns:carddav}addressbook-description"
P_ABCOLOR = "{http://inf-it.com/ns/ab/}addressbook-color"
P_COMMENT = "{DAV:}comment"
P_CALDATA = "{urn:ietf:params:xml:ns:caldav}calendar-data"
P_ADDRDATA = "{urn:ietf:params:xml:ns:carddav}address-data"
P_RT_CAL = "{urn:ietf:params:xml:ns:caldav}calendar"
P_RT_AB = "{urn:ietf:params:xml:ns:carddav}addressbook"


def proppatch(sets=(), removes=()):
    """sets: [(clark, text)], removes: [clark]"""
    parts = []
    for name, val in sets:
        parts.append(f"<D:set><D:prop><{q(name)}>{xesc(val)}</{q(name)}></D:prop></D:set>")
    for name in removes:
        parts.append(f"<D:remove><D:prop><{q(name)}/></D:prop></D:remove>")
    return f'<?xml version="1.0" encoding="utf-8"?><D:propertyupdate {NS}>{"".join(parts)}</D:propertyupdate>'.encode()


RT_XML = {"calendar": "<D:collection/><C:calendar/>", "addressbook": "<D:collection/><A:addressbook/>", "plain": "<D:collection/>"}


def proppatch_resourcetype(kind, sets=()):
    """PROPPATCH that sets DAV:resourcetype (after the other properties in `sets`)"""
    parts = [f"<D:set><D:prop><{q(name)}>{xesc(val)}</{q(name)}></D:prop></D:set>" for name, val in sets]
    parts.append(f"<D:set><D:prop><D:resourcetype>{RT_XML[kind]}</D:resourcetype></D:prop></D:set>")
    return f'<?xml version="1.0" encoding="utf-8"?><D:propertyupdate {NS}>{"".join(parts)}</D:propertyupdate>'.encode()


def proppatch_ordered(instr):
    """instr: [("set", clark, text) | ("remove", clark)] in document order (RFC 4918 9.2: processed in that order)"""
    parts = []
    for i in instr:
        if i[0] == "set":
            parts.append(f"<D:set><D:prop><{q(i[1])}>{xesc(i[2])}</{q(i[1])}></D:prop></D:set>")
        else:
            parts.append(f"<D:remove><D:prop><{q(i[1])}/></D:prop></D:remove>")
    return f'<?xml version="1.0" encoding="utf-8"?><D:propertyupdate {NS}>{"".join(parts)}</D:propertyupdate>'.encode()


def mkcol_ext(kind, sets=(), rt_last=False):
    rt = RT_XML[kind]
    others = "".join(f"<{q(n)}>{xesc(v)}</{q(n)}>" for n, v in sets)
    props = (others + f"<D:resourcetype>{rt}</D:resourcetype>") if rt_last else (f"<D:resourcetype>{rt}</D:resourcetype>" + others)
    return f'<?xml version="1.0" encoding="utf-8"?><D:mkcol {NS}><D:set><D:prop>{props}</D:prop></D:set></D:mkcol>'.encode()


def mkcalendar(sets=()):
    props = "".join(f"<{q(n)}>{xesc(v)}</{q(n)}>" for n, v in sets)
    return f'<?xml version="1.0" encoding="utf-8"?><C:mkcalendar {NS}><D:set><D:prop>{props}</D:prop></D:set></C:mkcalendar>'.encode()


def multiget(kind, hrefs, data=True):
    root = "C:calendar-multiget" if kind == "calendar" else "A:addressbook-multiget"
    dataprop = "<C:calendar-data/>" if kind == "calendar" else "<A:address-data/>"
    hs = "".join(f"<D:href>{xesc(h)}</D:href>" for h in hrefs)
    return f'<?xml version="1.0" encoding="utf-8"?><{root} {NS}><D:prop><D:getetag/>{dataprop if data else ""}</D:prop>{hs}</{root}>'.encode()


def sync_collection(token, props=("{DAV:}getetag",), level="1"):
    pr = "".join(f"<{q(p)}/>" for p in props)
    tok = f"<D:sync-token>{xesc(token)}</D:sync-token>" if token is not None else "<D:sync-token/>"
    return f'<?xml version="1.0" encoding="utf-8"?><D:sync-collection {NS}>{tok}<D:sync-level>{level}</D:sync-level><D:prop>{pr}</D:prop></D:sync-collection>'.encode()


def calendar_query(filter_xml, data=True, extra=""):
    d = "<C:calendar-data/>" if data else ""
    return f'<?xml version="1.0" encoding="utf-8"?><C:calendar-query {NS}><D:prop><D:getetag/>{d}</D:prop><C:filter>{filter_xml}</C:filter>{extra}</C:calendar-query>'.encode()


CAL_MATCH_ALL = '<C:comp-filter name="VCALENDAR"/>'


def addressbook_query(filter_xml, data=True, limit=None):
    d = "<A:address-data/>" if data else ""
    lim = f"<A:limit><A:nresults>{limit}</A:nresults></A:limit>" if limit is not None else ""
    return f'<?xml version="1.0" encoding="utf-8"?><A:addressbook-query {NS}><D:prop><D:getetag/>{d}</D:prop>{filter_xml}{lim}</A:addressbook-query>'.encode()


CARD_MATCH_ALL = "<A:filter/>"


class MSResponse:
    __slots__ = ("hrefs", "status", "props", "error", "el")

    def __init__(self):
        self.hrefs = []
        self.status = None       # int or None
        self.props = {}          # clark -> (status int, element)
        self.error = None
        self.el = None

    @property
    def href(self):
        return self.hrefs[0] if self.hrefs else None

    def prop_text(self, clark):
        v = self.props.get(clark)
        if v is None or v[0] != 200:
            return None
        return v[1].text or ""

    def prop_status(self, clark):
        v = self.props.get(clark)
        return v[0] if v else None


class MalformedXML(Exception):
    pass


def _status_code(text):
    m = re.match(r"\s*HTTP/\d\.\d\s+(\d{3})", text or "")
    return int(m.group(1)) if m else None


def parse_multistatus(body):
    """-> (list of MSResponse, sync-token or None). Raises MalformedXML."""
    try:
        root = ET.fromstring(body)
    except ET.ParseError as e:
        raise MalformedXML(str(e))
    if root.tag != "{DAV:}multistatus":
        raise MalformedXML("root is %s" % root.tag)
    out = []
    token = None
    for el in root:
        if el.tag == "{DAV:}sync-token":
            token = el.text or ""
            continue
        if el.tag != "{DAV:}response":
            continue
        r = MSResponse()
        r.el = el
        for c in el:
            if c.tag == "{DAV:}href":
                r.hrefs.append(c.text or "")
            elif c.tag == "{DAV:}status":
                r.status = _status_code(c.text)
            elif c.tag == "{DAV:}error":
                r.error = [e.tag for e in c]
            elif c.tag == "{DAV:}propstat":
                st = None
                props = []
                for d in c:
                    if d.tag == "{DAV:}status":
                        st = _status_code(d.text)
                    elif d.tag == "{DAV:}prop":
                        props = list(d)
                for p in props:
                    r.props[p.tag] = (st, p)
        out.append(r)
    return out, token


def effective_status(method, resp):
    """HTTP status, except that a 207 carrying exactly one DAV:response with a
    DAV:error child and a DAV:status takes that inner status (xandikos wraps
    precondition failures that way). -> (status, error-tags or None)"""
    if resp.status != 207:
        return resp.status, None
    try:
        rs, _ = parse_multistatus(resp.body)
    except MalformedXML:
        if method in ("PUT", "POST", "DELETE", "MKCOL", "MKCALENDAR"):
            # xandikos answers 207 to these methods only to wrap an error; an
            # ill-formed body (e.g. control characters of the rejected upload
            # echoed in the description) is still a refusal, not a success
            m = re.search(rb"HTTP/1\.1 (\d{3})", resp.body)
            return (int(m.group(1)) if m else 599), ["vf:ill-formed-error-body"]
        return resp.status, None
    if len(rs) == 1 and rs[0].error is not None and rs[0].status is not None:
        return rs[0].status, rs[0].error
    return resp.status, None


def resourcetypes(r):
    v = r.props.get("{DAV:}resourcetype")
    if v is None or v[0] != 200:
        return None
    return sorted(c.tag for c in v[1])


def prop_hrefs(r, clark):
    v = r.props.get(clark)
    if v is None or v[0] != 200:
        return None
    return [c.text or "" for c in v[1] if c.tag == "{DAV:}href"]
