"""Front ends: the client boundary.

* WsgiFE  - xandikos.wsgi:app built by (re)loading the real module, called
            directly with an environ produced by the rules of
            wsgiref.simple_server.WSGIRequestHandler.get_environ.
* AioFE   - the real CLI (`python -m xandikos serve`) in a subprocess,
            spoken to with a raw HTTP/1.1 client (no URL normalisation).
* WsgiHostFE - xandikos.wsgi:app behind wsgiref.simple_server in a subprocess.

All return Resp(status, headers(list of (k,v)), body(bytes)).
"""
import io
import os
import signal
import socket
import subprocess
import sys
import time
import urllib.parse

from . import common


class Resp:
    __slots__ = ("status", "headers", "body", "broken")

    def __init__(self, status, headers, body, broken=None):
        self.status = status
        self.headers = headers
        self.body = body
        self.broken = broken

    def header(self, name, default=None):
        name = name.lower()
        for k, v in self.headers:
            if k.lower() == name:
                return v
        return default

    def __repr__(self):
        return f"<Resp {self.status} {len(self.body)}B>"


def split_target(target):
    """-> (path, query) the way BaseHTTPRequestHandler/wsgiref see it."""
    if "?" in target:
        path, query = target.split("?", 1)
    else:
        path, query = target, ""
    return path, query


def wsgiref_environ(method, target, headers, body, script_name=""):
    """Build the environ wsgiref.simple_server would hand to the app.

    Reproduces WSGIRequestHandler.get_environ + WSGIServer.setup_environ
    (CPython 3.12): PATH_INFO = unquote(path, 'iso-8859-1'); headers become
    HTTP_<NAME with - -> _>; repeated headers are comma-joined;
    Content-Type/Content-Length get their own keys; missing Content-Type
    yields the email-package default 'text/plain'.
    `script_name` emulates a server that mounts the application below a
    prefix (mod_wsgi WSGIScriptAlias, uwsgi --mount): the prefix is removed
    from PATH_INFO and put into SCRIPT_NAME.
    """
    path, query = split_target(target)
    # absolute-form request targets are passed through by http.server as is
    path_info = urllib.parse.unquote(path, "iso-8859-1")
    sn = script_name.rstrip("/")
    if sn:
        if path_info == sn or path_info.startswith(sn + "/"):
            path_info = path_info[len(sn):]
        else:
            # outside the mount: a real front server would not route it here
            return None
    env = {
        "REQUEST_METHOD": method,
        "SCRIPT_NAME": sn,
        "PATH_INFO": path_info,
        "QUERY_STRING": query,
        "SERVER_NAME": "localhost",
        "SERVER_PORT": "80",
        "SERVER_PROTOCOL": "HTTP/1.1",
        "GATEWAY_INTERFACE": "CGI/1.1",
        "REMOTE_ADDR": "127.0.0.1",
        "REMOTE_HOST": "",
        "wsgi.version": (1, 0),
        "wsgi.url_scheme": "http",
        "wsgi.input": io.BytesIO(body or b""),
        "wsgi.errors": sys.stderr,
        "wsgi.multithread": False,
        "wsgi.multiprocess": False,
        "wsgi.run_once": False,
    }
    ct = None
    cl = None
    for k, v in headers:
        kl = k.lower()
        if kl == "content-type":
            ct = v
            continue
        if kl == "content-length":
            cl = v
            continue
        key = "HTTP_" + k.replace("-", "_").upper()
        if key in env:
            env[key] += "," + v
        else:
            env[key] = v
    env["CONTENT_TYPE"] = ct if ct is not None else "text/plain"
    if cl is None and body is not None:
        cl = str(len(body))
    if cl is not None:
        env["CONTENT_LENGTH"] = cl
    env.setdefault("HTTP_HOST", "localhost")
    return env


class WsgiFE:
    """In-process xandikos.wsgi:app. restart() reloads the module (new
    backend, new app) and clears the process-wide store cache, which is what a
    new worker process would start with."""

    name = "wsgi"

    def __init__(self, root, principal="/user/", autocreate=None, prefix="/"):
        self.root = root
        self.principal = principal
        self.autocreate = autocreate
        self.prefix = prefix
        self.app = None
        self.start()

    def start(self):
        import importlib
        os.environ["XANDIKOSPATH"] = self.root
        os.environ["CURRENT_USER_PRINCIPAL"] = self.principal
        if self.autocreate:
            os.environ["AUTOCREATE"] = self.autocreate
        else:
            os.environ.pop("AUTOCREATE", None)
        import logging
        logging.disable(logging.CRITICAL)
        import xandikos
        assert os.path.realpath(xandikos.__file__).startswith(os.path.realpath(common.REPO) + os.sep), xandikos.__file__
        import xandikos.web
        xandikos.web.open_store_from_path.cache_clear()
        if "xandikos.wsgi" in sys.modules:
            mod = importlib.reload(sys.modules["xandikos.wsgi"])
        else:
            mod = importlib.import_module("xandikos.wsgi")
        self.app = mod.app

    def restart(self):
        self.app = None
        self.start()

    def stop(self):
        self.app = None

    def request(self, method, target, headers=(), body=None):
        env = wsgiref_environ(method, target, list(headers), body, script_name=self.prefix)
        if env is None:
            return Resp(404, [], b"", broken="outside-mount")
        out = {}

        def start_response(status, hdrs, exc_info=None):
            out["status"] = status
            out["headers"] = list(hdrs)
            return lambda b: None

        try:
            it = self.app(env, start_response)
            chunks = []
            for c in it:
                chunks.append(c)
            bodyb = b"".join(chunks)
        except Exception as e:  # what a WSGI server turns into a 500
            import traceback
            return Resp(500, [("X-VF-Exception", type(e).__name__)], traceback.format_exc().encode(), broken=None)
        st = int(out["status"].split(" ", 1)[0])
        if method == "HEAD":
            bodyb = b"" if not bodyb else bodyb
        return Resp(st, out["headers"], bodyb)


# --------------------------------------------------------------------------
# raw HTTP/1.1 client


_SEND_COUNTER = [0]


def raw_http(addr, method, target, headers=(), body=None, timeout=30.0, half_close=False):
    """One request on a fresh connection. addr = ('unix', path) | ('tcp', host, port)."""
    if addr[0] == "unix":
        s = socket.socket(socket.AF_UNIX, socket.SOCK_STREAM)
        s.settimeout(timeout)
        s.connect(addr[1])
    else:
        s = socket.create_connection((addr[1], addr[2]), timeout=timeout)
    try:
        hs = list(headers)
        names = {k.lower() for k, _ in hs}
        lines = [f"{method} {target} HTTP/1.1"]
        if "host" not in names:
            lines.append("Host: localhost")
        for k, v in hs:
            lines.append(f"{k}: {v}")
        if body is not None and "content-length" not in names:
            lines.append(f"Content-Length: {len(body)}")
        lines.append("Connection: close")
        head = ("\r\n".join(lines) + "\r\n\r\n").encode("latin-1")
        _SEND_COUNTER[0] += 1
        try:
            if body and len(body) > 64 and _SEND_COUNTER[0] % 3 == 0:
                # every third request with a body arrives the way real networks deliver it:
                # headers first, the body later and in several pieces
                s.sendall(head)
                time.sleep(0.003)
                k = max(1, len(body) // 3)
                for i in range(0, len(body), k):
                    s.sendall(body[i:i + k])
                    time.sleep(0.001)
            else:
                s.sendall(head + (body or b""))
        except (BrokenPipeError, ConnectionResetError):
            pass   # the server answered (and closed) before reading the whole request
        if half_close:
            # wsgiref hands the raw socket to the application as wsgi.input and
            # xandikos reads it without a length: signal end-of-input the way a
            # production WSGI server bounds the stream at Content-Length
            try:
                s.shutdown(socket.SHUT_WR)
            except OSError:
                pass
        buf = bytearray()
        while True:
            try:
                c = s.recv(65536)
            except socket.timeout:
                return Resp(0, [], bytes(buf), broken="timeout")
            except ConnectionResetError:
                break
            if not c:
                break
            buf += c
    finally:
        try:
            s.close()
        except Exception:
            pass
    return parse_http_response(bytes(buf), method)


def raw_http_slow(addr, method, target, headers, body, between, cut=None, timeout=30.0, pause=0.15):
    """One request whose body arrives in two parts; `between()` runs after the head and the first part
    were sent (and the server had `pause` seconds to start handling the request), before the rest is sent.
    -> (response, whatever between() returned)"""
    if addr[0] == "unix":
        s = socket.socket(socket.AF_UNIX, socket.SOCK_STREAM)
        s.settimeout(timeout)
        s.connect(addr[1])
    else:
        s = socket.create_connection((addr[1], addr[2]), timeout=timeout)
    mid = None
    try:
        lines = [f"{method} {target} HTTP/1.1", "Host: localhost"]
        for k, v in headers:
            lines.append(f"{k}: {v}")
        lines.append(f"Content-Length: {len(body)}")
        lines.append("Connection: close")
        head = ("\r\n".join(lines) + "\r\n\r\n").encode("latin-1")
        cut = len(body) // 2 if cut is None else cut
        try:
            s.sendall(head + body[:cut])
            time.sleep(pause)
            mid = between()
            s.sendall(body[cut:])
        except (BrokenPipeError, ConnectionResetError):
            pass
        buf = bytearray()
        while True:
            try:
                c = s.recv(65536)
            except socket.timeout:
                return Resp(0, [], bytes(buf), broken="timeout"), mid
            except ConnectionResetError:
                break
            if not c:
                break
            buf += c
    finally:
        try:
            s.close()
        except Exception:
            pass
    return parse_http_response(bytes(buf), method), mid


def parse_http_response(buf, method):
    if not buf:
        return Resp(0, [], b"", broken="empty")
    head, sep, rest = buf.partition(b"\r\n\r\n")
    if not sep:
        return Resp(0, [], buf, broken="no-header-end")
    lines = head.decode("latin-1").split("\r\n")
    try:
        status = int(lines[0].split(" ", 2)[1])
    except Exception:
        return Resp(0, [], buf, broken="bad-status-line")
    headers = []
    for ln in lines[1:]:
        k, _, v = ln.partition(":")
        headers.append((k.strip(), v.strip()))
    # skip 1xx
    if 100 <= status < 200:
        return parse_http_response(rest, method)
    r = Resp(status, headers, rest)
    te = (r.header("Transfer-Encoding") or "").lower()
    if "chunked" in te:
        out = bytearray()
        p = 0
        try:
            while True:
                e = rest.index(b"\r\n", p)
                n = int(rest[p:e].split(b";")[0], 16)
                if n == 0:
                    break
                out += rest[e + 2:e + 2 + n]
                p = e + 2 + n + 2
            r.body = bytes(out)
        except Exception:
            r.broken = "bad-chunking"
    else:
        cl = r.header("Content-Length")
        if cl is not None and method != "HEAD":
            try:
                n = int(cl)
                if len(rest) < n:
                    r.broken = "short-body"
                r.body = rest[:n]
            except ValueError:
                pass
    if method == "HEAD":
        r.body = rest  # whatever was (wrongly) sent
    return r


class _Proc:
    def __init__(self):
        self.proc = None
        self.logpath = None

    def alive(self):
        return self.proc is not None and self.proc.poll() is None

    def kill(self, sig=signal.SIGKILL):
        if self.proc is None:
            return
        try:
            os.killpg(self.proc.pid, sig)
        except Exception:
            try:
                self.proc.kill()
            except Exception:
                pass
        try:
            self.proc.wait(timeout=10)
        except Exception:
            pass
        self.proc = None

    def log(self, n=4000):
        return common._tail(self.logpath, n) if self.logpath else ""


class AioFE(_Proc):
    """The real CLI server on a unix-domain socket (or TCP)."""

    name = "aio"

    def __init__(self, root, base, principal="/user/", autocreate=None, prefix="/", extra_args=(), agent=None, tcp=False, env=None, start=True):
        super().__init__()
        self.root = root
        self.base = base
        self.principal = principal
        self.autocreate = autocreate  # None | 'autocreate' | 'defaults'
        self.prefix = prefix
        self.extra_args = list(extra_args)
        self.agent = agent  # dict of agent options or None
        self.tcp = tcp
        self.env = env or {}
        self.n = 0
        self.addr = None
        self.wrap = None  # e.g. ['strace', ...]
        self.cwd = None
        if start:
            self.start()

    def argv(self):
        a = ["-d", self.root, "--current-user-principal", self.principal, "--no-detect-systemd"]
        if self.prefix != "/":
            a += ["--route-prefix", self.prefix]
        if self.autocreate == "defaults":
            a += ["--defaults"]
        elif self.autocreate == "autocreate":
            a += ["--autocreate"]
        return a + self.extra_args

    def start(self):
        self.n += 1
        self.logpath = os.path.join(self.base, f"server-{self.n}.log")
        extra = {"HOME": os.path.join(self.base, "home"), "TMPDIR": os.path.join(self.base, "tmp")}
        os.makedirs(extra["HOME"], exist_ok=True)
        os.makedirs(extra["TMPDIR"], exist_ok=True)
        extra.update(self.env)
        if self.agent:
            extra["XANDIKOS_VERIF"] = "1"
            extra["XANDIKOS_VERIF_AGENT"] = __import__("json").dumps(self.agent)
        for attempt in range(5):
            if self.tcp:
                s = socket.socket()
                s.bind(("127.0.0.1", 0))
                port = s.getsockname()[1]
                s.close()
                listen = ["-l", "127.0.0.1", "-p", str(port)]
                self.addr = ("tcp", "127.0.0.1", port)
            else:
                sp = os.path.join(self.base, f"s{self.n}.{attempt}.sock")
                listen = ["-l", sp]
                self.addr = ("unix", sp)
            cmd = [common.PY, "-B", os.path.join(common.HOME, "vf", "serve_real.py")] + listen + self.argv()
            if self.wrap:
                cmd = self.wrap + cmd
            logf = open(self.logpath, "ab")
            self.proc = subprocess.Popen(cmd, stdout=logf, stderr=subprocess.STDOUT, env=common.worker_env(extra), cwd=self.cwd or self.base, start_new_session=True)
            logf.close()
            if self._wait_ready():
                return
            self.kill()
        raise RuntimeError("server did not start: " + self.log())

    def _wait_ready(self, t=25.0):
        t0 = time.monotonic()
        while time.monotonic() - t0 < t:
            if self.proc.poll() is not None:
                return False
            try:
                if self.addr[0] == "unix":
                    if os.path.exists(self.addr[1]):
                        s = socket.socket(socket.AF_UNIX)
                        s.connect(self.addr[1])
                        s.close()
                        return True
                else:
                    s = socket.create_connection((self.addr[1], self.addr[2]), timeout=1)
                    s.close()
                    return True
            except OSError:
                pass
            time.sleep(0.02)
        return False

    def restart(self):
        self.kill()
        self.start()

    def stop(self):
        self.kill()

    def request(self, method, target, headers=(), body=None):
        r = raw_http(self.addr, method, target, headers, body)
        if r.broken in ("empty",) and not self.alive():
            r.broken = "server-died"
        return r


class WsgiHostFE(_Proc):
    """xandikos.wsgi:app (+ WellknownRedirector) behind wsgiref in a subprocess."""

    name = "wsgihost"

    def __init__(self, root, base, principal="/user/", autocreate=None, prefix="/", env=None):
        super().__init__()
        self.root, self.base, self.principal, self.autocreate, self.prefix = root, base, principal, autocreate, prefix
        self.env = env or {}
        self.n = 0
        self.start()

    def start(self):
        self.n += 1
        self.logpath = os.path.join(self.base, f"wsgihost-{self.n}.log")
        portfile = os.path.join(self.base, f"wsgihost-{self.n}.port")
        extra = {"HOME": os.path.join(self.base, "home"), "TMPDIR": os.path.join(self.base, "tmp"),
                 "XANDIKOSPATH": self.root, "CURRENT_USER_PRINCIPAL": self.principal,
                 "VF_PORTFILE": portfile, "VF_PREFIX": self.prefix}
        os.makedirs(extra["HOME"], exist_ok=True)
        os.makedirs(extra["TMPDIR"], exist_ok=True)
        if self.autocreate:
            extra["AUTOCREATE"] = {"defaults": "defaults", "autocreate": "yes"}.get(self.autocreate, self.autocreate)
        extra.update(self.env)
        logf = open(self.logpath, "ab")
        self.proc = subprocess.Popen([common.PY, "-B", os.path.join(common.HOME, "vf", "wsgihost.py")], stdout=logf, stderr=subprocess.STDOUT,
                                     env=common.worker_env(extra), cwd=self.base, start_new_session=True)
        logf.close()
        t0 = time.monotonic()
        while time.monotonic() - t0 < 25:
            if self.proc.poll() is not None:
                raise RuntimeError("wsgi host died: " + self.log())
            if os.path.exists(portfile):
                try:
                    port = int(open(portfile).read())
                    self.addr = ("tcp", "127.0.0.1", port)
                    s = socket.create_connection(("127.0.0.1", port), timeout=1)
                    s.close()
                    return
                except (OSError, ValueError):
                    pass
            time.sleep(0.02)
        raise RuntimeError("wsgi host did not start: " + self.log())

    def restart(self):
        self.kill()
        self.start()

    def stop(self):
        self.kill()

    def request(self, method, target, headers=(), body=None):
        return raw_http(self.addr, method, target, headers, body, half_close=True)
