"""Independent evaluator of CARDDAV:filter (RFC 6352 section 10.5) over
vf/icl.py vCards (see DESIGN.md Appendix B)."""
from . import icl


class Undefined(Exception):
    pass


def ascii_upper(s):
    return "".join(chr(ord(c) - 32) if "a" <= c <= "z" else c for c in s)


def text_match(tm, value):
    col = tm.get("collation") or "i;unicode-casemap"
    a, b = value, tm["text"] or ""
    if col == "i;ascii-casemap":
        a, b = ascii_upper(a), ascii_upper(b)
    elif col == "i;unicode-casemap":
        if any(c in a or c in b for c in "ßıſﬁİ"):
            # RFC 5051 (title-case mapping + decomposition) and str.casefold() disagree on these
            raise Undefined("unicode-casemap special case")
        a, b = a.casefold(), b.casefold()
    elif col == "i;octet":
        pass
    else:
        raise Undefined(col)
    mt = tm.get("match_type") or "contains"
    if mt == "contains":
        r = b in a
    elif mt == "equals":
        r = a == b
    elif mt == "starts-with":
        r = a.startswith(b)
    elif mt == "ends-with":
        r = a.endswith(b)
    else:
        raise Undefined(mt)
    return (not r) if tm.get("negate") else r


def prop_value(p):
    return p.text


def match_param(pf, prop):
    vals = prop.param(pf["name"])
    if pf.get("is_not_defined"):
        return vals is None
    if vals is None:
        return False
    tm = pf.get("text_match")
    if tm is None:
        return True
    out = []
    for v in vals:
        out += v.split(",")
    return any(text_match(tm, v) for v in out)


def match_prop(pf, card):
    insts = [p for p in card.props if p.name == pf["name"].upper()]
    if pf.get("is_not_defined"):
        return not insts
    if not insts:
        return False
    tests = [("tm", t) for t in pf.get("text_matches", [])] + [("pm", q) for q in pf.get("params", [])]
    if not tests:
        return True
    comb = all if (pf.get("test") or "anyof") == "allof" else any
    for p in insts:
        if comb((text_match(t, prop_value(p)) if k == "tm" else match_param(t, p)) for k, t in tests):
            return True
    return False


def matches(flt, card):
    pfs = flt.get("props", [])
    if not pfs:
        return True
    comb = all if (flt.get("test") or "anyof") == "allof" else any
    return comb(match_prop(pf, card) for pf in pfs)


def render_tm(tm):
    from xml.sax.saxutils import escape
    a = ""
    if tm.get("collation"):
        a += ' collation="%s"' % tm["collation"]
    if tm.get("match_type"):
        a += ' match-type="%s"' % tm["match_type"]
    if tm.get("negate"):
        a += ' negate-condition="yes"'
    return "<A:text-match%s>%s</A:text-match>" % (a, escape(tm["text"]))


def render(flt):
    from xml.sax.saxutils import quoteattr
    out = "<A:filter%s>" % (' test="%s"' % flt["test"] if flt.get("test") else "")
    for pf in flt.get("props", []):
        inner = ""
        if pf.get("is_not_defined"):
            inner += "<A:is-not-defined/>"
        for t in pf.get("text_matches", []):
            inner += render_tm(t)
        for q in pf.get("params", []):
            pin = "<A:is-not-defined/>" if q.get("is_not_defined") else (render_tm(q["text_match"]) if q.get("text_match") else "")
            inner += "<A:param-filter name=%s>%s</A:param-filter>" % (quoteattr(q["name"]), pin)
        out += "<A:prop-filter name=%s%s>%s</A:prop-filter>" % (quoteattr(pf["name"]), ' test="%s"' % pf["test"] if pf.get("test") else "", inner)
    return out + "</A:filter>"


def selftest():
    c = icl.parse_vcard(b"BEGIN:VCARD\r\nVERSION:3.0\r\nFN:Cyrus Daboo\r\nN:Daboo;Cyrus;;;\r\nEMAIL;TYPE=INTERNET,PREF:cyrus@example.com\r\nNICKNAME:me\r\nEND:VCARD\r\n")
    # RFC 6352 8.6.3 example 1: anyof FN contains 'daboo' / EMAIL contains 'daboo'
    f = {"test": "anyof", "props": [{"name": "FN", "text_matches": [{"text": "daboo", "collation": "i;unicode-casemap", "match_type": "contains"}]},
                                    {"name": "EMAIL", "text_matches": [{"text": "daboo", "collation": "i;unicode-casemap", "match_type": "contains"}]}]}
    assert matches(f, c)
    f2 = {"test": "allof", "props": [{"name": "FN", "text_matches": [{"text": "daboo", "match_type": "equals"}]}]}
    assert not matches(f2, c)
    assert matches({"props": [{"name": "NICKNAME", "text_matches": [{"text": "ME", "match_type": "equals"}]}]}, c)
    assert matches({"props": [{"name": "TEL", "is_not_defined": True}]}, c) and not matches({"props": [{"name": "EMAIL", "is_not_defined": True}]}, c)
    assert matches({"props": [{"name": "EMAIL", "params": [{"name": "TYPE", "text_match": {"text": "pref", "match_type": "equals"}}]}]}, c)
    assert matches({"props": [{"name": "FN", "text_matches": [{"text": "boo", "match_type": "ends-with"}]}]}, c)
    assert not matches({"props": [{"name": "FN", "text_matches": [{"text": "Cyrus", "match_type": "ends-with"}]}]}, c)
    return True
