"""./check entry: parent (per property) and shard-worker dispatch."""
import importlib
import json
import os
import sys
import time

HERE = os.path.dirname(os.path.abspath(__file__))
HOME = os.path.dirname(HERE)
if HOME not in sys.path:
    sys.path.insert(0, HOME)

DEFAULT_SEED = {"quick": 20261003, "thorough": 20261004}


def worker(module, inp, outp):
    repo = os.environ.get("VERIF_REPO", "/repo")
    if repo not in sys.path:
        sys.path.insert(0, repo)
    import faulthandler
    faulthandler.enable()
    with open(inp) as f:
        args = json.load(f)
    mod = importlib.import_module(module)
    res = mod.run_shard(args)
    if hasattr(res, "dump"):
        res = res.dump()
    with open(outp + ".tmp", "w") as f:
        json.dump(res, f, default=repr)
    os.replace(outp + ".tmp", outp)
    sys.stdout.flush()
    os._exit(0)


def main(argv):
    if argv and argv[0] == "--worker":
        return worker(argv[1], argv[2], argv[3])
    if not argv:
        print("usage: check <ID> [--tier quick|thorough] [--replay FILE]")
        return 64
    prop = argv[0].upper()
    tier = os.environ.get("VERIF_TIER", "quick")
    replay = None
    i = 1
    while i < len(argv):
        if argv[i] == "--tier":
            tier = argv[i + 1]
            i += 2
        elif argv[i] == "--replay":
            replay = argv[i + 1]
            i += 2
        else:
            print("unknown argument", argv[i])
            return 64
    if tier not in ("quick", "thorough"):
        print("bad tier", tier)
        return 64
    try:
        seed = int(os.environ.get("VERIF_SEED", "") or DEFAULT_SEED[tier])
    except ValueError:
        seed = DEFAULT_SEED[tier]
    mod = importlib.import_module("vf.props." + prop.lower())
    t0 = time.monotonic()
    if replay:
        return mod.replay(replay)
    return mod.check(tier, seed, t0)


if __name__ == "__main__":
    sys.exit(main(sys.argv[1:]))
