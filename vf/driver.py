"""Random history driver shared by the history-based checks."""
import random

from . import davxml as X, gen, icl, world as W

DEFAULT_WEIGHTS = {
    "put_new": 10, "put_same": 3, "put_reser": 2, "put_change": 6, "put_revert": 3, "put_invalid": 3,
    "put_cond": 3, "put_uidconflict": 2, "put_uidchange": 2, "post": 2, "delete": 5, "delete_missing": 1, "delete_cond_stale": 1,
    "mkcol_new": 1.2, "mkcol_existing": 1, "delete_col": 0.8, "proppatch": 2, "read": 4, "restart": 0.5,
    "put_missing_col": 0.5, "put_nouid": 0.5, "put_moved": 0, "put_swap": 0, "put_reserved": 0.7, "locked_writes": 0, "control_dir": 0.5, "put_type_confusion": 0.6, "git_branch_rename": 0,
}

# names for C01-class histories: URL-hostile but not URL-structural
# (':', '?', '#', ';' and friends belong to the C16 grammar)
SAFE_HOSTILE = [" ", "%", "%41", "+", "&", "=", "@", ",", "'", "(", ")", "~", "!", "$", "é", "ü", "日本", "😀", "é", "[", "]"]


def safe_names(rng, n, ext, hostile=0.35):
    out, seen = [], set()
    while len(out) < n:
        if rng.random() < hostile:
            s = rng.choice(["", "n", "N"]) + rng.choice(SAFE_HOSTILE) + rng.choice(["a", "1", "Zz"])
            if rng.random() < 0.3:
                s += rng.choice(SAFE_HOSTILE) + "q"
        else:
            s = rng.choice(gen.BENIGN) + rng.choice(["", "1", "2"])
        s = s.lstrip(". ") or "n"   # leading dots: reserved names; leading blanks: C16 grammar
        s += ext
        if s not in seen:
            seen.add(s)
            out.append(s)
    return out


class Driver:
    def __init__(self, world, rng, weights=None, max_cols=6, pool=10, uids=7, ascii_names=False, audit_every=5, hostile=0.35, kinds=("calendar", "addressbook", "plain"), blank_values=False):
        self.w = world
        self.rng = rng
        self.weights = dict(DEFAULT_WEIGHTS)
        if weights:
            self.weights.update(weights)
        self.max_cols = max_cols
        self.pool = pool
        self.pools = {}      # colpath -> names
        self.uids = list(gen.UID_POOL[:uids])
        self.coln = 0
        self.ascii_names = ascii_names
        self.hostile = 0.0 if ascii_names else hostile
        self.audit_every = audit_every
        self.since_full = 0
        self.kinds = kinds
        self.counts = {}
        self.dead_cols = []
        self.blank_values = blank_values   # display names as typed into a form: sometimes with a blank at the end

    # ------------------------------------------------------------ helpers
    def names_for(self, colpath):
        if colpath not in self.pools:
            col = self.w.cols[colpath]
            exts = {"calendar": [".ics"], "addressbook": [".vcf"], "plain": [".txt", ".ics", ".vcf", ".bin"]}[col.kind]
            names = []
            for e in exts:
                names += safe_names(self.rng, max(3, self.pool // len(exts)), e, self.hostile)
            self.pools[colpath] = names
        return self.pools[colpath]

    def body_for(self, name, uid=None, summary=None):
        tok = self.w.new_token()
        ext = W.ext_of(name)
        big = self.rng.choice([70000, 140000]) if self.rng.random() < 0.04 else 0
        if ext == ".ics":
            uid = uid if uid is not None else self.rng.choice(self.uids)
            return gen.ical(self.rng, uid, tok, summary=summary, big=big), uid, tok
        if ext == ".vcf":
            uid = uid if uid is not None else self.rng.choice(self.uids)
            return gen.vcard(self.rng, uid, tok, big=big), uid, tok
        return gen.other_file(self.rng, tok), None, tok

    def pick_col(self, kinds=None, nonempty=False):
        cs = [c for c in self.w.cols.values() if c.kind in (kinds or ("calendar", "addressbook", "plain")) and not c.path.rstrip("/").endswith(("calendars", "contacts"))]
        if nonempty:
            cs = [c for c in cs if c.members]
        return self.rng.choice(cs) if cs else None

    def free_uid(self, col, avoid_name=None):
        used = {m.uid for n, m in col.members.items() if n != avoid_name}
        free = [u for u in self.uids if u not in used]
        return self.rng.choice(free) if free else None

    def count(self, k):
        self.counts[k] = self.counts.get(k, 0) + 1

    def new_colpath(self, kind):
        self.coln += 1
        home = "/user/calendars/" if kind != "addressbook" else "/user/contacts/"
        if kind == "plain" and self.rng.random() < 0.5:
            home = "/"
        return "%s%s%d/" % (home, {"calendar": "cal", "addressbook": "ab", "plain": "pl"}[kind], self.coln)

    # ------------------------------------------------------------ ops
    def step(self):
        w = self.w
        ops = list(self.weights.items())
        op = self.rng.choices([o for o, _ in ops], [x for _, x in ops])[0]
        fn = getattr(self, "op_" + op)
        touched = fn()
        if touched is None:
            return None
        self.count(op)
        self.since_full += 1
        if touched == "restart" or self.since_full >= self.audit_every:
            self.since_full = 0
            w.full_audit(None)
        else:
            w.full_audit([t for t in touched if t in w.cols])
        return op

    def op_put_new(self):
        col = self.pick_col()
        if col is None:
            return None
        names = [n for n in self.names_for(col.path) if n not in col.members]
        if not names or len(col.members) >= 8:
            return None
        name = self.rng.choice(names)
        uid = self.free_uid(col) if W.ext_of(name) in (".ics", ".vcf") else None
        if uid is None and W.ext_of(name) == ".ics":
            return None
        body, uid, tok = self.body_for(name, uid)
        self.w.put(col.path, name, body, op="put_new", uid=uid, token=tok)
        return [col.path]

    def op_put_same(self):
        col = self.pick_col(nonempty=True)
        if col is None:
            return None
        name = self.rng.choice(sorted(col.members))
        m = col.members[name]
        body = m.served if (m.served is not None and self.rng.random() < 0.7) else m.uploaded
        self.w.put(col.path, name, body, op="put_same", uid=m.uid, token=m.token)
        return [col.path]

    def op_put_reser(self):
        col = self.pick_col(("calendar",), nonempty=True)
        if col is None:
            return None
        name = self.rng.choice(sorted(col.members))
        m = col.members[name]
        try:
            lines = icl.unfold(m.uploaded)
        except icl.ICLError:
            return None
        body = gen.render(lines, self.rng)
        self.w.put(col.path, name, body, op="put_reser", uid=m.uid, token=m.token)
        return [col.path]

    def op_put_change(self):
        col = self.pick_col(nonempty=True)
        if col is None:
            return None
        name = self.rng.choice(sorted(col.members))
        m = col.members[name]
        body, uid, tok = self.body_for(name, m.uid)
        self.w.put(col.path, name, body, op="put_change", uid=uid, token=tok)
        return [col.path]

    def op_put_uidchange(self):
        col = self.pick_col(("calendar",), nonempty=True)
        if col is None:
            return None
        name = self.rng.choice(sorted(col.members))
        uid = self.free_uid(col, avoid_name=name)
        if uid is None:
            return None
        body, uid, tok = self.body_for(name, uid)
        self.w.put(col.path, name, body, op="put_uidchange", uid=uid, token=tok)
        return [col.path]

    def op_put_revert(self):
        col = self.pick_col(nonempty=True)
        if col is None:
            return None
        cands = [m for m in col.members.values() if m.history]
        if not cands:
            return None
        m = self.rng.choice(sorted(cands, key=lambda m: m.name))
        up, served, etag = self.rng.choice(m.history)
        body = served if (served is not None and self.rng.random() < 0.5) else up
        uid = None
        if m.ctype == "text/calendar":
            try:
                uid = icl.calendar_uid(icl.parse_calendar(body))
            except icl.ICLError:
                return None
            holders = {x.uid for n, x in col.members.items() if n != m.name}
            if uid in holders:
                return None
        self.w.put(col.path, m.name, body, op="put_revert", uid=uid if uid is not None else m.uid, token=None)
        return [col.path]

    def op_put_invalid(self):
        col = self.pick_col(("calendar", "addressbook"))
        if col is None:
            return None
        names = self.names_for(col.path)
        name = self.rng.choice(names)
        if col.kind == "calendar":
            cls = self.rng.choice(["arbitrary", "empty", "truncated-line", "truncated-byte"])
            body = gen.invalid_ical(self.rng, cls)
        else:
            cls = self.rng.choice(["arbitrary", "empty", "no-begin", "no-end", "truncated-byte"])
            body = gen.invalid_vcard(self.rng, cls)
        self.w.put(col.path, name, body, op="put_invalid:" + cls, uid=None, token=None)
        return [col.path]

    def op_put_cond(self):
        col = self.pick_col(nonempty=True)
        if col is None:
            return None
        name = self.rng.choice(sorted(col.members))
        m = col.members[name]
        body, uid, tok = self.body_for(name, m.uid)
        stale = [h[2] for h in m.history if h[2] and h[2] != m.etag]
        choice = self.rng.choice(["match-current", "match-stale", "match-star", "none-match-star", "none-match-stale"])
        if choice == "match-current" and m.etag:
            hs = [("If-Match", m.etag)]
        elif choice == "match-stale" and stale:
            hs = [("If-Match", self.rng.choice(stale))]
        elif choice == "match-star":
            hs = [("If-Match", "*")]
        elif choice == "none-match-star":
            hs = [("If-None-Match", "*")]
        elif choice == "none-match-stale" and stale:
            hs = [("If-None-Match", self.rng.choice(stale))]
        else:
            hs = [("If-Match", '"0000000000000000000000000000000000000000"')]
        self.w.put(col.path, name, body, headers=hs, op="put_cond:" + choice, uid=uid, token=tok)
        return [col.path]

    def op_put_uidconflict(self):
        col = self.pick_col(("calendar",), nonempty=True)
        if col is None:
            return None
        holder = self.rng.choice(sorted(col.members))
        uid = col.members[holder].uid
        if uid is None:
            return None
        names = [n for n in self.names_for(col.path) if n != holder and W.ext_of(n) == ".ics"]
        if not names:
            return None
        name = self.rng.choice(names)
        stem = holder[:-4]
        variant = "".join(c.swapcase() if c.isascii() else c for c in stem) + holder[-4:]
        if variant != holder and self.rng.random() < 0.3:
            # a name that differs from the holder's only in the case of its letters is another resource
            name = variant
            self.count("put_uidconflict_name_differs_in_case_only")
        body, uid, tok = self.body_for(name, uid)
        self.w.put(col.path, name, body, op="put_uidconflict", uid=uid, token=tok)
        return [col.path]

    def op_put_moved(self):
        """the body of a deleted member comes back under another name"""
        col = self.pick_col()
        if col is None or not getattr(col, "deleted_bodies", None):
            return None
        names = [n for n in self.names_for(col.path) if n not in col.members]
        if not names:
            return None
        oldname, body, uid = self.rng.choice(col.deleted_bodies)
        cand = [n for n in names if W.ext_of(n) == W.ext_of(oldname) and n != oldname]
        if not cand:
            return None
        if uid is not None and uid in {m.uid for m in col.members.values()}:
            return None
        self.w.put(col.path, self.rng.choice(cand), body, op="put_moved", uid=uid, token=None)
        return [col.path]

    def op_put_swap(self):
        """two members exchange their bodies (only where no UID check applies)"""
        col = self.pick_col(("addressbook", "plain"), nonempty=True)
        if col is None:
            return None
        cands = [n for n in sorted(col.members) if W.ext_of(n) != ".ics" and col.members[n].served is not None]
        if len(cands) < 2:
            return None
        a, b = self.rng.sample(cands, 2)
        if W.ext_of(a) != W.ext_of(b):
            return None
        ba, bb = col.members[a].served, col.members[b].served
        self.w.put(col.path, a, bb, op="put_swap", uid=col.members[b].uid, token=None)
        self.w.put(col.path, b, ba, op="put_swap", uid=col.members[a].uid, token=None)
        return [col.path]

    def op_put_reserved(self):
        """a member name that collides with the store's own files"""
        col = self.pick_col()
        if col is None:
            return None
        name = self.rng.choice([".xandikos", ".xandikos", ".git", ".gitignore", ".xandikos.tmp", ".GIT", ".Git"])
        body = self.rng.choice([b"[DEFAULT]\ntype = addressbook\ndisplayname = hijacked\n", b"[DEFAULT]\ntype = calendar\n", b"just text " + self.w.new_token().encode(), b""])
        ct = self.rng.choice(["text/plain", "application/octet-stream", "text/calendar"])
        w = self.w
        s, r = w.call("put_reserved:" + name, "PUT", w.url(col.path, name), [("Content-Type", ct)], body)
        if W.World.success(s.eff):
            # self-consistency: what was acknowledged must be readable and listed like any other member
            w._apply_put(col, name, W.ctype_for(name), body, None, None, r.header("ETag"))
        w.notify(s, r)
        if self.rng.random() < 0.4:
            # ... and a DELETE on such a name must not remove the store's own file
            w.delete(col.path, name)
        return [col.path]

    def op_put_type_confusion(self):
        """a member whose name says calendar / card but whose first upload was declared text/plain (and is not one),
        then the same name uploaded with its proper media type: whatever the server answers, a refusal has no effect"""
        col = self.pick_col(("calendar", "addressbook", "plain"))
        if col is None:
            return None
        w, rng = self.w, self.rng
        ext = col.ext() if col.kind != "plain" else rng.choice([".ics", ".vcf"])
        name = "conf%d%s" % (rng.randint(1, 2), ext)
        if name in col.members and rng.random() < 0.7:
            uid = self.free_uid(col, avoid_name=name) or "conf-uid"
            body, uid, tok = self.body_for(name, uid)
            w.put(col.path, name, body, op="put_proper_type_over_plain", uid=uid, token=tok)
        else:
            tok = w.new_token()
            w.put(col.path, name, ("just some notes, not a calendar " + tok + "\n").encode(), op="put_declared_plain", ctype="text/plain", token=tok)
        return [col.path]

    def op_control_dir(self):
        """requests below the control directory of a git store: it is not part of the DAV namespace,
        nothing there may be served as a collection, written or removed"""
        col = self.pick_col()
        if col is None:
            return None
        bares = [c for c in self.w.cols.values() if c.backend == "bare"]
        if bares and self.rng.random() < 0.45:
            col = self.rng.choice(bares)
        w, rng = self.w, self.rng
        base = w.url(col.path) + rng.choice([".git/", ".git/", ".git", ".GIT/"])
        if col.backend == "bare":
            # a bare repository has no control directory: its own directories take that place
            base = w.url(col.path) + rng.choice(["refs/heads/", "refs/heads/", "refs/", "objects/", "hooks/", "info/"])
        k = rng.random()
        tok = w.new_token()
        if col.backend == "bare" and k < 0.45:
            # a collection made inside the repository, then a member put into it
            sub = base + "x%s/" % tok
            self.count("control_dir_bare_nested")
            s, r = w.call("ctl:mkcol", "MKCOL", sub, [], None)
            w.notify(s, r)
            nm = "ctl-%s.ics" % tok
            s, r = w.call("ctl:put", "PUT", sub + nm, [("Content-Type", "text/calendar")], gen.ical(rng, "ctl-" + tok, tok, rich=False))
            w.notify(s, r)
            return [col.path]
        if k < 0.3:
            nm = "ctl-%s.ics" % tok
            s, r = w.call("ctl:put", "PUT", base.rstrip("/") + "/" + nm, [("Content-Type", "text/calendar")], gen.ical(rng, "ctl-" + tok, tok, rich=False))
        elif k < 0.5 and col.members:
            s, r = w.call("ctl:delete-member", "DELETE", base.rstrip("/") + "/" + gen.quote_name(rng.choice(sorted(col.members))), [], None)
        elif k < 0.65:
            s, r = w.call("ctl:delete", "DELETE", base, [], None)
        elif k < 0.8:
            s, r = w.call("ctl:mkcol", "MKCOL", base.rstrip("/") + "/sub%s/" % tok, [], None)
        elif k < 0.9:
            s, r = w.call("ctl:propfind", "PROPFIND", base, [("Depth", "1"), X.XML_CT], X.propfind([X.P_ETAG, X.P_RESOURCETYPE]))
        else:
            s, r = w.call("ctl:proppatch", "PROPPATCH", base, [X.XML_CT], X.proppatch(sets=[(X.P_DISPLAYNAME, "ctl " + tok)]))
        w.notify(s, r)
        return [col.path]

    def op_locked_writes(self):
        """another git process holds .git/index.lock: writes must be refused without side effects"""
        import os
        col = self.pick_col(nonempty=True)
        if col is None or col.backend not in ("tree", "bare"):
            return None
        if col.backend == "tree" and self.rng.random() < 0.5:
            lock = os.path.join(self.w.fs_path(col.path), ".git", "index.lock")
        elif col.backend == "tree":
            # ... or the lock of the branch: the write gets as far as the commit before it is refused
            try:
                head = open(os.path.join(self.w.fs_path(col.path), ".git", "HEAD")).read().strip()
            except OSError:
                return None
            if not head.startswith("ref: "):
                return None
            lock = os.path.join(self.w.fs_path(col.path), ".git", head[5:] + ".lock")
            os.makedirs(os.path.dirname(lock), exist_ok=True)
            self.count("locked_writes_branch_lock_on_tree")
        else:
            # bare store: the lock of the branch HEAD points at
            try:
                head = open(os.path.join(self.w.fs_path(col.path), "HEAD")).read().strip()
            except OSError:
                return None
            if not head.startswith("ref: "):
                return None
            lock = os.path.join(self.w.fs_path(col.path), head[5:] + ".lock")
            os.makedirs(os.path.dirname(lock), exist_ok=True)
        if os.path.exists(lock):
            return None
        name = self.rng.choice(sorted(col.members))
        m = col.members[name]
        open(lock, "wb").close()
        try:
            self.w.delete(col.path, name)
            body, uid, tok = self.body_for(name, m.uid)
            self.w.put(col.path, name, body, op="put_locked", uid=uid, token=tok)
            free = [n for n in self.names_for(col.path) if n not in col.members]
            if free and W.ext_of(free[0]) != ".ics":
                b2, u2, t2 = self.body_for(free[0])
                self.w.put(col.path, free[0], b2, op="put_locked_new", uid=u2, token=t2)
        finally:
            try:
                os.unlink(lock)
            except FileNotFoundError:
                pass
        if self.rng.random() < 0.6:
            # the client tries the very same upload again once the other process is gone: now it must be stored
            self.w.full_audit([col.path])
            self.w.put(col.path, name, body, op="put_retry_after_lock", uid=uid, token=tok)
        return [col.path]

    def op_put_nouid(self):
        col = self.pick_col(("calendar",))
        if col is None or len(col.members) >= 8:
            return None
        name = self.rng.choice(self.names_for(col.path))
        tok = self.w.new_token()
        body = gen.ical(self.rng, None, tok)
        self.w.put(col.path, name, body, op="put_nouid", uid=None, token=tok)
        return [col.path]

    def op_post(self):
        col = self.pick_col(("calendar", "addressbook"))
        if col is None or len(col.members) >= 8:
            return None
        uid = self.free_uid(col)
        if uid is None:
            return None
        stems = [n[:-len(col.ext())] for n, m in col.members.items() if n.endswith(col.ext()) and m.uid != n[:-len(col.ext())] and all(c.isalnum() or c in "-_" for c in n[:-len(col.ext())])]
        if stems and self.rng.random() < 0.35:
            # a UID that spells the name of another member (whose own UID is a different one): the new member still gets a name of its own
            uid = self.rng.choice(stems)
            self.count("post_with_uid_spelling_a_member_name")
        body, uid, tok = self.body_for("x" + col.ext(), uid)
        ct = W.CT[col.kind]
        if self.rng.random() < 0.4:
            # the media type as most clients send it, with a parameter
            ct += self.rng.choice(["; charset=utf-8", ";charset=UTF-8", "; charset=\"utf-8\""])
            self.count("post_with_content_type_parameter")
        self.w.post(col.path, body, ct, uid=uid, token=tok)
        return [col.path]

    def op_delete(self):
        col = self.pick_col(nonempty=True)
        if col is None:
            return None
        name = self.rng.choice(sorted(col.members))
        m = col.members[name]
        hs = []
        r = self.rng.random()
        if r < 0.3 and m.etag:
            hs = [("If-Match", m.etag)]
        elif r < 0.4:
            hs = [("If-Match", "*")]
        self.w.delete(col.path, name, headers=hs)
        return [col.path]

    def op_delete_missing(self):
        col = self.pick_col()
        if col is None:
            return None
        names = [n for n in self.names_for(col.path) if n not in col.members]
        if not names:
            return None
        self.w.delete(col.path, self.rng.choice(names))
        return [col.path]

    def op_delete_cond_stale(self):
        col = self.pick_col(nonempty=True)
        if col is None:
            return None
        cands = [m for m in col.members.values() if any(h[2] and h[2] != m.etag for h in m.history)]
        if not cands:
            return None
        m = self.rng.choice(sorted(cands, key=lambda m: m.name))
        stale = [h[2] for h in m.history if h[2] and h[2] != m.etag]
        self.w.delete(col.path, m.name, headers=[("If-Match", self.rng.choice(stale))])
        return [col.path]

    def op_mkcol_new(self):
        live = [c for c in self.w.cols.values() if not c.path.rstrip("/").endswith(("calendars", "contacts"))]
        if len(live) >= self.max_cols:
            return None
        kind = self.rng.choice(self.kinds)
        # re-creating a deleted collection exercises the store cache
        if self.dead_cols and self.rng.random() < 0.6:
            path, kind = self.dead_cols.pop()
            if kind in ("calendar", "addressbook") and self.rng.random() < 0.5 and set(self.kinds) >= {"calendar", "addressbook"}:
                # the same URL, this time with the other type
                kind = "addressbook" if kind == "calendar" else "calendar"
                self.count("recreated_with_other_type")
                getattr(self, "dead_bodies", {}).pop(path, None)
                self.pools.pop(path, None)
        else:
            path = self.new_colpath(kind)
        how = "auto"
        if kind == "calendar" and self.rng.random() < 0.3:
            how = "mkcol-ext"
        if kind in ("calendar", "addressbook"):
            k = self.rng.random()
            if k < 0.2:
                how = "mkcol-then-proppatch"
            elif k < 0.3:
                how = "mkcol-ext-rt-last"
        props = []
        if how != "mkcol-plain" and kind != "plain" and self.rng.random() < (0.5 if how in ("auto", "mkcol-ext") else 0.8):
            props = [(X.P_DISPLAYNAME, "name " + self.w.new_token())]
        self.w.mkcol(path, kind, how=how, props=props)
        back = getattr(self, "dead_bodies", {}).pop(path, None)
        if back and path in self.w.cols and self.rng.random() < 0.7:
            # the same bytes under the same name in the new incarnation of a deleted collection
            n, body, uid, tok = self.rng.choice(back)
            if self.rng.random() < 0.5:
                # ... or under another name: nothing of the old collection is left that could hold its UID
                n = "again-" + n
            self.w.put(path, n, body, op="put_into_recreated", uid=uid, token=tok)
            self.count("put_into_recreated")
        return [path, self.w.parent_of(path)]

    def op_mkcol_existing(self):
        col = self.pick_col()
        if col is None:
            return None
        self.w.mkcol(col.path, col.kind)
        return [col.path]

    def op_delete_col(self):
        col = self.pick_col()
        # half of the time: a collection whose last upload was refused (what a client may well do next: give up on it)
        refused = [c for c in self.w.cols.values() if getattr(c, "last_put_refused", False) and c.backend != "bare" and not c.path.rstrip("/").endswith(("calendars", "contacts"))]
        if refused and self.rng.random() < 0.5:
            col = self.rng.choice(refused)
            self.count("delete_col_after_refused_put")
        if col is None or col.backend == "bare":
            return None
        path, kind = col.path, col.kind
        bodies = [(n, (m.served if m.served is not None else m.uploaded), m.uid, m.token) for n, m in sorted(col.members.items())][:3]
        self.w.delete(path, None)
        if path not in self.w.cols:
            self.dead_cols.append((path, kind))
            self.pools.pop(path, None)
            if not hasattr(self, "dead_bodies"):
                self.dead_bodies = {}
            self.dead_bodies[path] = bodies
        return [self.w.parent_of(path)]

    def op_put_missing_col(self):
        if self.rng.random() < 0.45:
            # a collection below a parent that does not exist: 409, and the parent does not come into being
            parent = "/user/calendars/nosuch%d/" % self.rng.randint(1, 3)
            kind = self.rng.choice(["calendar", "plain", "addressbook"])
            self.w.mkcol(parent + "sub/", kind)
            self.count("mkcol_below_missing_parent")
            return ["/user/calendars/"]
        name = "x.ics"
        body, uid, tok = self.body_for(name, "u1")
        self.w.put("/user/calendars/nosuch%d/" % self.rng.randint(1, 3), name, body, op="put_missing_col", uid=uid, token=tok)
        return []

    def op_proppatch(self):
        col = self.pick_col()
        if col is None:
            return None
        val = "dn " + self.w.new_token()
        k = self.rng.random()
        if self.rng.random() < 0.3:
            # a client that writes all its settings back: a property set to the value it already has (not the one set last)
            desc = {"calendar": X.P_CALDESC, "addressbook": X.P_ABDESC}.get(col.kind)
            for want in (X.P_DISPLAYNAME, desc):
                if len(col.props) < 2 and want is not None and want not in col.props:
                    self.w.proppatch(col.path, sets=[(want, "v " + self.w.new_token())])
            if len(col.props) < 2:
                return [col.path]
            self.w.full_audit([col.path])
            # (mostly the one that was set first: it is followed by others wherever the settings are kept in order)
            prop = list(col.props)[0] if self.rng.random() < 0.7 else self.rng.choice(sorted(col.props))
            self.w.proppatch(col.path, sets=[(prop, col.props[prop])], op="proppatch_same_value")
            self.count("proppatch_same_value")
            return [col.path]
        if k < 0.15 and X.P_DISPLAYNAME in col.props:
            self.w.proppatch(col.path, removes=[X.P_DISPLAYNAME])
        elif k < 0.5 and col.kind == "calendar":
            # colours as clients send them, with and without the leading '#'
            v = self.rng.choice(["#112233", "FF8800", "#AABBCCDD", "00ff00", "0000FF", "#fff"])
            if not v.startswith("#"):
                self.count("proppatch_colour_without_hash")
            self.w.proppatch(col.path, sets=[(X.P_CALCOLOR, v)])
        elif k < 0.6 and col.kind == "calendar":
            self.w.proppatch(col.path, sets=[(X.P_CALDESC, "descr " + self.w.new_token())])
        elif k < 0.5 and col.kind == "addressbook":
            self.w.proppatch(col.path, sets=[(X.P_ABDESC, "descr " + self.w.new_token())])
        else:
            if self.blank_values and self.rng.random() < 0.3:
                val += " "
                self.count("proppatch_blank_at_end")
            self.w.proppatch(col.path, sets=[(X.P_DISPLAYNAME, val)])
        return [col.path]

    def op_read(self):
        col = self.pick_col()
        if col is None:
            return None
        k = self.rng.choice(["get", "head", "propfind0", "propfind1", "report-sync", "report-multiget", "report-query", "get-missing", "get-col"])
        w = self.w
        if k in ("get", "head") and col.members:
            w.get(col.path, self.rng.choice(sorted(col.members)), method=k.upper())
        elif k == "get-missing":
            w.get(col.path, "never-" + self.rng.choice(["a", "b"]) + col.ext())
        elif k == "get-col":
            w.rd("get-col", "GET", w.url(col.path), [], None)
        elif k == "propfind0":
            w.propfind(w.url(col.path), W.AUDIT_PROPS, "0")
        elif k == "propfind1":
            w.rd("propfind-allprop", "PROPFIND", w.url(col.path), [("Depth", "1"), X.XML_CT], X.propfind(allprop=True))
        elif k == "report-sync":
            w.report(col.path, X.sync_collection(None), op="report-sync")
        elif k == "report-multiget" and col.kind in ("calendar", "addressbook"):
            hrefs = [w.url(col.path, n) for n in sorted(col.members)][:5] + [w.url(col.path, "missing" + col.ext())]
            w.report(col.path, X.multiget(col.kind, hrefs), op="report-multiget")
        elif k == "report-query" and col.kind == "calendar":
            w.report(col.path, X.calendar_query(X.CAL_MATCH_ALL), op="report-query")
        elif k == "report-query" and col.kind == "addressbook":
            w.report(col.path, X.addressbook_query(X.CARD_MATCH_ALL), op="report-query")
        else:
            return None
        return [col.path]

    def op_git_branch_rename(self):
        """the administrator renames the branch of a tree-git collection with the git CLI while the server runs (HEAD follows);
        the writes that come afterwards belong on the branch HEAD names"""
        import subprocess
        cols = [c for c in self.w.cols.values() if c.backend == "tree" and c.kind in ("calendar", "addressbook") and c.members]
        if not cols:
            return None
        col = self.rng.choice(sorted(cols, key=lambda c: c.path))
        fsp = self.w.fs_path(col.path)
        self.w.full_audit([col.path])
        r = subprocess.run(["git", "-C", fsp, "symbolic-ref", "--short", "HEAD"], capture_output=True, text=True, env=self.w._git_env())
        if r.returncode != 0:
            return None
        cur = r.stdout.strip()
        self.nrenames = getattr(self, "nrenames", 0) + 1
        r = subprocess.run(["git", "-C", fsp, "branch", "-m", cur, "trunk%d" % self.nrenames], capture_output=True, text=True, env=self.w._git_env())
        if r.returncode != 0:
            return None
        # ... and the next request is a write to that collection
        names = [n for n in self.names_for(col.path) if W.ext_of(n) in (".ics", ".vcf")]
        if names:
            name = self.rng.choice(names)
            free = [u for u in self.uids if all(m.uid != u for m in col.members.values())]
            holder = col.members.get(name)
            uid = holder.uid if holder is not None and holder.uid else (free[0] if free else None)
            if uid is not None:
                body, uid, tok = self.body_for(name, uid)
                self.w.put(col.path, name, body, op="put_after_branch_rename", uid=uid, token=tok)
        return [col.path]

    def op_restart(self):
        self.w.restart()
        return "restart"
