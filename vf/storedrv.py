"""Store-API driver: the same model and oracles as the HTTP histories, driven
through Store.import_one / delete_one / iter_with_etag / get_file on vdir,
bare-git (memory, disk) and tree-git stores.  'restart' = a new store object
on the same directory."""
import hashlib
import os
import random
import traceback

from . import common, gen, icl, driver as D


def open_store(backend, path, create=False):
    from xandikos.icalendar import ICalendarFile
    from xandikos.vcard import VCardFile
    if backend == "vdir":
        from xandikos.store.vdir import VdirStore
        st = VdirStore.create(path) if create else VdirStore.open_from_path(path)
    elif backend == "bare-mem":
        from xandikos.store.git import BareGitStore
        assert create
        st = BareGitStore.create_memory()
    elif backend in ("bare-disk", "bare"):
        from xandikos.store.git import BareGitStore, GitStore
        st = BareGitStore.create(path) if create else GitStore.open_from_path(path)
    elif backend == "tree":
        from xandikos.store.git import TreeGitStore, GitStore
        st = TreeGitStore.create(path) if create else GitStore.open_from_path(path)
    else:
        raise ValueError(backend)
    st.load_extra_file_handler(ICalendarFile)
    st.load_extra_file_handler(VCardFile)
    return st


def classify(exc):
    from xandikos import store as S
    for cls, nm in ((S.InvalidETag, "InvalidETag"), (S.DuplicateUidError, "DuplicateUid"), (S.InvalidFileContents, "InvalidFileContents"),
                    (S.NoSuchItem, "NoSuchItem"), (S.LockedError, "Locked"), (S.OutOfSpaceError, "OutOfSpace")):
        if isinstance(exc, cls):
            return nm
    return "EXC:" + type(exc).__name__


class SM:
    __slots__ = ("uploaded", "etag", "uid", "token", "history", "ctype", "served", "bigbody")


class StoreWorld:
    def __init__(self, backend, base, rng, res, cfg, prop):
        self.backend = backend
        self.path = os.path.join(base, "store")
        self.rng = rng
        self.res = res
        self.cfg = cfg
        self.prop = prop
        self.st = open_store(backend, self.path, create=True)
        self.model = {}
        self.log = []
        self.tokn = 0
        self.uids = list(gen.UID_POOL[:7])
        exts = [".ics", ".vcf"] if backend == "vdir" else [".ics", ".vcf", ".txt"]
        self.names = []
        for e in exts:
            self.names += D.safe_names(rng, 4, e, 0.3)
        self.etag_obs = {}   # name -> list of (etag, sha)
        self.n = 0

    def viol(self, sig, msg, extra=None):
        wit = {"config": self.cfg, "history_tail": self.log[-30:]}
        if extra:
            wit["detail"] = extra
        self.res.violation(f"store-api/{self.backend}/{sig}", msg, wit)

    def token(self):
        self.tokn += 1
        return "vs%dx%d" % (self.cfg["seed"] % 100000, self.tokn)

    def ctype(self, name):
        return {".ics": "text/calendar", ".vcf": "text/vcard"}.get(name[name.rfind("."):], "text/plain")

    def body(self, name, uid):
        tok = self.token()
        # now and then a large member whose only changing bytes are at its end
        big = self.rng.choice([70000, 140000, 200000]) if self.rng.random() < 0.08 else 0
        if name in self.model and getattr(self.model[name], "bigbody", None) and self.model[name].uid == uid and self.rng.random() < 0.8:
            # tail-only change of the previous large body
            prev, ptok = self.model[name].bigbody
            self._lastbig = (prev.replace(ptok.encode(), tok.encode()), tok)
            self.res.count("store_tail_only_changes")
            return self._lastbig[0], tok
        if name.endswith(".ics"):
            b = gen.ical(random.Random(len(name)), uid, tok, big=big, rich=False) if big else gen.ical(self.rng, uid, tok)
        elif name.endswith(".vcf"):
            b = gen.vcard(random.Random(len(name)), uid, tok, big=big, rich=False) if big else gen.vcard(self.rng, uid, tok)
        else:
            return gen.other_file(self.rng, tok), tok
        self._lastbig = (b, tok) if big else None
        return b, tok

    def holders(self, exclude=None):
        return {m.uid: n for n, m in self.model.items() if n != exclude and m.uid is not None and n.endswith(".ics")}

    def do_import(self, op, name, body, uid, tok, replace_etag=None, expect=None):
        self.n += 1
        rec = {"n": self.n, "op": op, "name": name, "body_sha": hashlib.sha256(body).hexdigest()[:16], "len": len(body), "replace_etag": replace_etag}
        try:
            (rn, etag) = self.st.import_one(name, self.ctype(name), [body], replace_etag=replace_etag)
            out = "ok"
            rec["etag"] = etag
        except Exception as e:
            out = classify(e)
            if out.startswith("EXC:"):
                rec["traceback"] = traceback.format_exc()[-800:]
        rec["outcome"] = out
        self.log.append(rec)
        self.res.count("store_steps")
        self.res.count("store_outcome:" + out)
        if out.startswith("EXC:"):
            self.viol("unmapped-exception/import/" + out[4:], f"import_one({name!r}) raised {out}", rec)
        if expect is not None and self.prop in expect:
            exp = expect[self.prop]
            if exp is not None and out != exp and not out.startswith("EXC:") and not (self.prop == "C03" and out == "DuplicateUid"):
                self.viol(f"{self.prop}-expect/{op}/{exp}-but-{out}", f"{op}: import_one({name!r}, replace_etag={replace_etag!r}) -> {out}, oracle expects {exp}", rec)
        if out == "ok":
            old = self.model.get(name)
            m = SM()
            m.uploaded, m.etag, m.uid, m.token, m.ctype, m.served = body, etag, uid, tok, self.ctype(name), None
            m.history = (old.history + [(old.uploaded, old.etag)])[-6:] if old else []
            lb = getattr(self, "_lastbig", None)
            m.bigbody = lb if (lb and lb[0] == body) else None
            if m.bigbody:
                self.res.count("store_big_bodies")
            self.model[name] = m
        self.res.seen(self.backend, op, out, len(self.model))
        return out

    def do_delete(self, op, name, etag=None, expect=None):
        self.n += 1
        rec = {"n": self.n, "op": op, "name": name, "etag": etag}
        try:
            self.st.delete_one(name, etag=etag)
            out = "ok"
        except Exception as e:
            out = classify(e)
            if out.startswith("EXC:"):
                rec["traceback"] = traceback.format_exc()[-800:]
        rec["outcome"] = out
        self.log.append(rec)
        self.res.count("store_steps")
        self.res.count("store_outcome:" + out)
        if out.startswith("EXC:"):
            self.viol("unmapped-exception/delete/" + out[4:], f"delete_one({name!r}) raised {out}", rec)
        if expect is not None and self.prop in expect:
            exp = expect[self.prop]
            if exp is not None and out != exp and not out.startswith("EXC:"):
                self.viol(f"{self.prop}-expect/{op}/{exp}-but-{out}", f"{op}: delete_one({name!r}, etag={etag!r}) -> {out}, oracle expects {exp}", rec)
        if out == "ok":
            self.model.pop(name, None)
        self.res.seen(self.backend, op, out, len(self.model))
        return out

    def reopen(self):
        if self.backend == "bare-mem":
            return
        self.n += 1
        self.log.append({"n": self.n, "op": "reopen"})
        self.st = open_store(self.backend, self.path)
        self.res.count("store_reopens")

    # ------------------------------------------------------------ audit
    def audit(self, after):
        res = self.res
        res.count("store_audits")
        try:
            listing = list(self.st.iter_with_etag())
        except Exception as e:
            self.viol("audit/iter_with_etag-raises", "iter_with_etag raised %r" % e)
            return
        names = [n for n, _, _ in listing]
        if len(set(names)) != len(names):
            self.viol("listing/duplicate-entry", f"iter_with_etag yields duplicates: {sorted(names)!r}")
        if set(names) != set(self.model):
            self.viol("listing/membership", f"iter_with_etag yields {sorted(names)!r}, model has {sorted(self.model)!r} ({after})")
        for n, ct, etag in listing:
            m = self.model.get(n)
            if m is None:
                continue
            try:
                f = self.st.get_file(n, ct, etag)
                body = b"".join(f.content)
            except Exception as e:
                self.viol("get/raises", f"get_file({n!r}) raised {e!r} ({after})")
                continue
            res.count("store_member_reads")
            if n.endswith(".ics"):
                try:
                    ok = icl.canon_bytes(body) == icl.canon_bytes(m.uploaded)
                except icl.ICLError as e:
                    ok = False
                if not ok:
                    self.viol(f"content/ical-differs/{after}", f"{n!r}: stored content differs from last successful import (token {m.token})", {"uploaded": m.uploaded.decode("utf-8", "replace")[:800], "stored": body.decode("utf-8", "replace")[:800]})
            elif body != m.uploaded:
                self.viol(f"content/bytes-differ/{after}", f"{n!r}: stored bytes differ from last successful import (token {m.token})")
            m.served = body
            # C02: etag <-> bytes
            sh = hashlib.sha256(body).hexdigest()[:20]
            if self.prop == "C02":
                if m.etag is not None and etag != m.etag:
                    self.viol("etag/import-vs-listing", f"{n!r}: import_one returned etag {m.etag} but iter_with_etag says {etag}")
                obs = self.etag_obs.setdefault(n, {})
                for e2, s2 in obs.items():
                    if e2 == etag and s2 != sh:
                        self.viol("etag/same-etag-different-bytes", f"{n!r}: etag {etag} seen for two different contents")
                    if e2 != etag and s2 == sh:
                        self.viol("etag/different-etag-same-bytes", f"{n!r}: identical bytes seen with etags {e2} and {etag}")
                obs[etag] = sh
                res.count("etag_observations")
            m.etag = etag
        if self.prop == "C06":
            self.audit_uids(listing)
            self.audit_uid_cache(listing)

    def audit_uid_cache(self, listing):
        """Invariant at a hook: after the scan that precedes every duplicate check, the store's uid -> name
        cache must equal the uid -> name map recomputed from the stored objects by the independent parser."""
        st = self.st
        if not hasattr(st, "_scan_uids") or not hasattr(st, "_uid_to_fname"):
            self.res.count("uid_cache_not_observable")
            return
        try:
            st._scan_uids()
        except Exception as e:
            self.viol("uid-cache/scan-raises/" + type(e).__name__, f"_scan_uids raised {e!r}")
            return
        truth = {}
        for n, ct, etag in listing:
            if not n.endswith(".ics"):
                continue
            try:
                uid = icl.calendar_uid(icl.parse_calendar(b"".join(st.get_file(n, ct, etag).content)))
            except Exception:
                continue
            if uid is not None:
                truth.setdefault(uid, set()).add(n)
        cache = {}
        for k, v in st._uid_to_fname.items():
            nm = v[0]
            if str(nm).endswith(".ics"):
                cache[str(k)] = nm
        self.res.count("uid_cache_checks")
        for uid, nm in cache.items():
            if nm not in truth.get(uid, ()):
                self.viol("uid-cache/stale-entry", f"after a scan the store's uid cache maps {uid!r} -> {nm!r}, but no such live object carries that UID (live holders: {sorted(truth.get(uid, []))!r})")
        for uid, names in truth.items():
            if uid not in cache:
                self.viol("uid-cache/missing-entry", f"after a scan the store's uid cache has no entry for {uid!r} carried by {sorted(names)!r}")

    def audit_uids(self, listing):
        by = {}
        for n, ct, etag in listing:
            if not n.endswith(".ics"):
                continue
            try:
                body = b"".join(self.st.get_file(n, ct, etag).content)
                uid = icl.calendar_uid(icl.parse_calendar(body))
            except Exception:
                continue
            if uid is not None:
                by.setdefault(uid, []).append(n)
        self.res.count("uid_audits")
        for uid, ns in by.items():
            if len(ns) > 1:
                self.viol("uid/duplicate-live-uid", f"UID {uid!r} is carried by {sorted(ns)!r}")

    # ------------------------------------------------------------ random step
    def step(self):
        rng = self.rng
        live = sorted(self.model)
        free = [n for n in self.names if n not in self.model]
        op = rng.choices(["new", "same", "change", "uidchange", "invalid", "cond-current", "cond-stale", "cond-absent", "uidconflict", "delete", "delete-missing",
                          "delete-cond-current", "delete-cond-stale", "reopen", "revert", "uidchange-samelen", "samelen-change-then-stale-cond", "cond-delete-of-item-without-file"],
                         [10, 3, 6, 3, 3, 3, 3, 1, 4, 5, 1, 2, 2, 1, 2, 3, 3, 2 if self.backend == "tree" else 0])[0]
        holders = self.holders()
        if op == "new" and free and len(live) < 7:
            n = rng.choice(free)
            uid = rng.choice([u for u in self.uids if u not in holders] or [None]) if n.endswith(".ics") else rng.choice(self.uids)
            if n.endswith(".ics") and uid is None:
                return False
            b, tok = self.body(n, uid)
            self.do_import(op, n, b, uid, tok, expect={"C06": "ok", "C03": "ok"})
        elif op == "same" and live:
            n = rng.choice(live)
            m = self.model[n]
            b = m.served if (m.served is not None and rng.random() < 0.6) else m.uploaded
            self.do_import(op, n, b, m.uid, m.token, expect={"C06": "ok", "C03": "ok"})
        elif op == "change" and live:
            n = rng.choice(live)
            m = self.model[n]
            b, tok = self.body(n, m.uid)
            self.do_import(op, n, b, m.uid, tok, expect={"C06": "ok", "C03": "ok"})
        elif op == "revert" and live:
            cands = [n for n in live if self.model[n].history]
            if not cands:
                return False
            n = rng.choice(cands)
            m = self.model[n]
            b, _ = rng.choice(m.history)
            uid = m.uid
            if n.endswith(".ics"):
                uid = icl.calendar_uid(icl.parse_calendar(b))
                if uid in self.holders(exclude=n):
                    return False
            self.do_import(op, n, b, uid, None, expect={"C06": "ok", "C03": "ok"})
        elif op == "uidchange" and live:
            ics = [n for n in live if n.endswith(".ics")]
            if not ics:
                return False
            n = rng.choice(ics)
            others = self.holders(exclude=n)
            cand = [u for u in self.uids if u not in others and u != self.model[n].uid]
            if not cand:
                return False
            uid = rng.choice(cand)
            b, tok = self.body(n, uid)
            self.do_import(op, n, b, uid, tok, expect={"C06": "ok", "C03": "ok"})
        elif op == "uidchange-samelen" and live:
            # the UID changes, the byte length and (practically) the modification second do not
            pairs = {"abc": "ABC", "ABC": "abc", "u1": "u2", "u2": "u3", "u3": "u1"}
            ics = [n for n in live if n.endswith(".ics") and self.model[n].uid in pairs and self.model[n].served is not None]
            if not ics:
                return False
            n = rng.choice(ics)
            olduid = self.model[n].uid
            newuid = pairs[olduid]
            if newuid in self.holders(exclude=n):
                return False
            body = self.model[n].served.replace(b"UID:" + olduid.encode(), b"UID:" + newuid.encode())
            if body == self.model[n].served or len(body) != len(self.model[n].served):
                return False
            self.res.count("store_same_length_uid_changes")
            self.do_import(op, n, body, newuid, self.model[n].token, expect={"C06": "ok", "C03": "ok"})
        elif op == "samelen-change-then-stale-cond" and live:
            # a change that keeps the byte length (and, in practice, the modification second), then a conditional
            # operation carrying the validator of the version before it: that validator is stale
            cands = [n for n in live if self.model[n].served is not None and self.model[n].token and self.model[n].token.encode() in self.model[n].served]
            if not cands:
                return False
            n = rng.choice(cands)
            m = self.model[n]
            tok = m.token
            tok2 = tok[:-1] + str((int(tok[-1]) + 1) % 10) if tok[-1].isdigit() else tok
            body = m.served.replace(tok.encode(), tok2.encode())
            if tok2 == tok or body == m.served or len(body) != len(m.served):
                return False
            before = m.etag
            if self.do_import("samelen-change", n, body, m.uid, tok2, expect={"C06": "ok", "C03": "ok"}) != "ok":
                return False
            self.res.count("store_same_length_changes")
            if rng.random() < 0.5:
                b3, tok3 = self.body(n, m.uid)
                self.do_import("cond-stale-after-samelen-change", n, b3, m.uid, tok3, replace_etag=before, expect={"C03": "InvalidETag"})
            else:
                self.do_delete("delete-cond-stale-after-samelen-change", n, etag=before, expect={"C03": "InvalidETag"})
        elif op == "cond-delete-of-item-without-file" and live and self.backend == "tree":
            # the state an interrupted delete leaves on a tree store: working file gone, index entry (what is listed and
            # served) still there.  The validator of such an item is still its blob id: a stale one must be refused.
            n = rng.choice(live)
            m = self.model[n]
            fp = os.path.join(self.path, n)
            if not os.path.isfile(fp):
                return False
            os.unlink(fp)
            self.res.count("store_items_left_without_working_file")
            stale = [e for (_, e) in m.history if e != m.etag]
            wrong = rng.choice(stale) if stale and rng.random() < 0.6 else rng.choice(["0" * 40, (self.model[rng.choice(live)].etag or "0" * 40)])
            if wrong == m.etag:
                wrong = "0" * 40
            self.do_delete("delete-cond-stale-without-file", n, etag=wrong, expect={"C03": "InvalidETag"})
            if rng.random() < 0.5 and n in self.model:
                self.do_delete("delete-cond-current-without-file", n, etag=m.etag, expect={"C03": "ok"})
        elif op == "invalid":
            n = rng.choice([x for x in self.names if not x.endswith(".txt")])
            if n.endswith(".ics"):
                b = gen.invalid_ical(rng, rng.choice(["arbitrary", "empty", "truncated-line", "truncated-byte"]))
            else:
                b = gen.invalid_vcard(rng, rng.choice(["arbitrary", "empty", "no-begin", "no-end", "truncated-byte"]))
            self.do_import(op, n, b, None, None)
        elif op in ("cond-current", "cond-stale") and live:
            n = rng.choice(live)
            m = self.model[n]
            b, tok = self.body(n, m.uid)
            if op == "cond-current":
                self.do_import(op, n, b, m.uid, tok, replace_etag=m.etag, expect={"C03": "ok", "C06": "ok"})
            else:
                stale = [e for (_, e) in m.history if e != m.etag]
                et = rng.choice(stale) if stale else "0" * 40
                self.do_import(op, n, b, m.uid, tok, replace_etag=et, expect={"C03": "InvalidETag"})
        elif op == "cond-absent" and free:
            n = rng.choice(free)
            uid = rng.choice([u for u in self.uids if u not in holders] or [None])
            if uid is None:
                return False
            b, tok = self.body(n, uid)
            self.do_import(op, n, b, uid, tok, replace_etag="0" * 40, expect={"C03": "InvalidETag"})
        elif op == "uidconflict" and holders:
            uid = rng.choice(sorted(holders))
            cands = [x for x in self.names if x.endswith(".ics") and x != holders[uid]]
            if not cands:
                return False
            n = rng.choice(cands)
            b, tok = self.body(n, uid)
            self.do_import(op, n, b, uid, tok, expect={"C06": "DuplicateUid"})
        elif op == "delete" and live:
            self.do_delete(op, rng.choice(live), expect={"C03": "ok"})
        elif op == "delete-missing" and free:
            self.do_delete(op, rng.choice(free), expect={"C03": "NoSuchItem"})
        elif op == "delete-cond-current" and live:
            n = rng.choice(live)
            self.do_delete(op, n, etag=self.model[n].etag, expect={"C03": "ok"})
        elif op == "delete-cond-stale" and live:
            n = rng.choice(live)
            m = self.model[n]
            stale = [e for (_, e) in m.history if e != m.etag]
            self.do_delete(op, n, etag=rng.choice(stale) if stale else "0" * 40, expect={"C03": "InvalidETag"})
        elif op == "reopen":
            self.reopen()
            self.audit("after-reopen")
            return True
        else:
            return False
        last = self.log[-1]
        self.audit("after-success" if last.get("outcome") == "ok" else "after-nonsuccess")
        return True


def run(args, res, prop):
    for hi in range(args.get("histories", 1)):
        hseed = args["seed"] * 1000 + hi
        rng = random.Random(hseed)
        base = common.mkscratch("st")
        cfg = {"mode": "store", "backend": args["backend"], "seed": hseed, "steps": args["steps"]}
        try:
            os.environ["HOME"] = os.path.join(base, "home")
            os.makedirs(os.environ["HOME"], exist_ok=True)
            w = StoreWorld(args["backend"], base, rng, res, cfg, prop)
            done = tries = 0
            while done < args["steps"] and tries < args["steps"] * 10:
                tries += 1
                if w.step():
                    done += 1
            res.evaluations += done
            if hi == 0:
                res.sample({"config": cfg, "first_steps": w.log[:10]}, cap=6)
        except Exception:
            res.inconclusive.append("store harness exception: " + traceback.format_exc()[-1500:])
        finally:
            common.rmtree(base)
    return res


def run_c01(args, res):
    return run(args, res, "C01")
