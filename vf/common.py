"""Shared plumbing: paths, scratch space, shard runner, verdicts, evidence."""
import hashlib
import json
import os
import shutil
import subprocess
import sys
import tempfile
import time

HOME = os.environ.get("VERIF_HOME") or os.path.dirname(os.path.dirname(os.path.abspath(__file__)))
REPO = os.environ.get("VERIF_REPO", "/repo")
PY = "/venv/bin/python"
NCPU = min(16, os.cpu_count() or 4)


def scratch_root():
    base = os.environ.get("VERIF_SCRATCH") or "/var/tmp/xandikos-verif"
    os.makedirs(base, exist_ok=True)
    return base


def run_for(seconds, enough, factor=4):
    """let concurrent clients run for `seconds`, and on a loaded machine longer (up to factor x): until `enough()` says
    the work the guards count on has been done - verdicts depend on operations observed, not on the wall clock"""
    import time as _t
    t_stop = _t.monotonic() + seconds
    while _t.monotonic() < t_stop or (not enough() and _t.monotonic() < t_stop + factor * seconds):
        _t.sleep(0.2)


def mkscratch(tag):
    return tempfile.mkdtemp(prefix=tag + "-", dir=scratch_root())


def rmtree(p):
    shutil.rmtree(p, ignore_errors=True)


def h(*parts):
    m = hashlib.sha256()
    for p in parts:
        if isinstance(p, str):
            p = p.encode("utf-8", "surrogateescape")
        elif not isinstance(p, (bytes, bytearray)):
            p = json.dumps(p, sort_keys=True, default=repr).encode()
        m.update(p)
        m.update(b"\0")
    return m.hexdigest()[:16]


def repo_rev():
    try:
        rev = subprocess.run(["git", "-C", REPO, "rev-parse", "HEAD"], capture_output=True, text=True, timeout=20).stdout.strip()
        dirty = bool(subprocess.run(["git", "-C", REPO, "status", "--porcelain", "--untracked-files=no"], capture_output=True, text=True, timeout=20).stdout.strip())
        return {"head": rev, "dirty": dirty}
    except Exception as e:  # pragma: no cover
        return {"head": "?", "dirty": None, "error": repr(e)}


def worker_env(extra=None):
    env = dict(os.environ)
    env["PYTHONPATH"] = REPO + os.pathsep + HOME
    env["PYTHONHASHSEED"] = "0"
    env["PYTHONDONTWRITEBYTECODE"] = "1"
    env["VERIF_HOME"] = HOME
    env["VERIF_REPO"] = REPO
    env.setdefault("TZ", "UTC")
    env["GIT_CONFIG_NOSYSTEM"] = "1"
    for k in ("EMAIL", "GIT_DIR", "GIT_WORK_TREE", "XANDIKOSPATH", "AUTOCREATE", "CURRENT_USER_PRINCIPAL"):
        env.pop(k, None)
    if extra:
        env.update(extra)
    return env


class Result:
    """What one shard hands back to the parent (JSON-serialisable)."""

    def __init__(self):
        self.violations = []   # {sig, msg, witness}
        self.counters = {}
        self.samples = []
        self.distinct = set()
        self.evaluations = 0
        self.inconclusive = []
        self.notes = []

    def count(self, key, n=1):
        self.counters[key] = self.counters.get(key, 0) + n

    def violation(self, sig, msg, witness=None):
        self.count("violations_raw")
        # keep at most a few witnesses per signature
        k = sum(1 for v in self.violations if v["sig"] == sig)
        if k < 3:
            self.violations.append({"sig": sig, "msg": msg, "witness": witness})
        else:
            self.count("violations_suppressed_same_sig:" + sig)

    def sample(self, s, cap=4):
        if len(self.samples) < cap:
            self.samples.append(s)

    def seen(self, *parts):
        self.distinct.add(h(*parts))

    def dump(self):
        return {
            "violations": self.violations,
            "counters": self.counters,
            "samples": self.samples,
            "distinct": sorted(self.distinct),
            "evaluations": self.evaluations,
            "inconclusive": self.inconclusive,
            "notes": self.notes,
        }


def merge(results):
    out = {"violations": [], "counters": {}, "samples": [], "distinct": set(), "evaluations": 0, "inconclusive": [], "notes": []}
    for r in results:
        out["violations"].extend(r.get("violations", []))
        for k, v in r.get("counters", {}).items():
            if isinstance(v, (int, float)):
                out["counters"][k] = out["counters"].get(k, 0) + v
        out["samples"].extend(r.get("samples", []))
        out["distinct"].update(r.get("distinct", []))
        out["evaluations"] += r.get("evaluations", 0)
        out["inconclusive"].extend(r.get("inconclusive", []))
        out["notes"].extend(r.get("notes", []))
    return out


def run_shards(module, shard_args, timeout_s, par=NCPU):
    """Run `module.run_shard(args)` for every args dict in its own process.

    Returns (results, failures). A shard that times out or crashes is a
    failure (=> inconclusive), never a violation.
    """
    outdir = mkscratch("shards")
    procs = []
    pending = list(enumerate(shard_args))
    results, failures = [], []
    running = []
    t0 = time.monotonic()
    try:
        while pending or running:
            while pending and len(running) < par:
                i, a = pending.pop(0)
                inp = os.path.join(outdir, f"in{i}.json")
                outp = os.path.join(outdir, f"out{i}.json")
                with open(inp, "w") as f:
                    json.dump(a, f)
                logp = os.path.join(outdir, f"log{i}.txt")
                logf = open(logp, "wb")
                p = subprocess.Popen(
                    [PY, "-B", os.path.join(HOME, "vf", "main.py"), "--worker", module, inp, outp],
                    stdout=logf, stderr=subprocess.STDOUT, env=worker_env(), cwd=HOME,
                    start_new_session=True,
                )
                running.append((i, p, outp, logp, logf, time.monotonic()))
            still = []
            for (i, p, outp, logp, logf, ts) in running:
                rc = p.poll()
                if rc is None:
                    if time.monotonic() - ts > timeout_s:
                        try:
                            os.killpg(p.pid, 9)
                        except Exception:
                            p.kill()
                        p.wait()
                        logf.close()
                        failures.append({"shard": i, "why": f"watchdog {timeout_s}s", "log": _tail(logp)})
                    else:
                        still.append((i, p, outp, logp, logf, ts))
                    continue
                logf.close()
                if rc == 0 and os.path.exists(outp):
                    try:
                        with open(outp) as f:
                            results.append(json.load(f))
                    except Exception as e:
                        failures.append({"shard": i, "why": "bad output " + repr(e), "log": _tail(logp)})
                else:
                    failures.append({"shard": i, "why": f"exit {rc}", "log": _tail(logp)})
            running = still
            if running:
                time.sleep(0.05)
    finally:
        for (i, p, *_rest) in running:
            try:
                os.killpg(p.pid, 9)
            except Exception:
                pass
        rmtree(outdir)
    return results, failures


def _tail(p, n=3000):
    try:
        with open(p, "rb") as f:
            d = f.read()
        return d[-n:].decode("utf-8", "replace")
    except Exception:
        return ""


# --------------------------------------------------------------------------
# known findings


def load_findings():
    """-> list of (property, key, text) for `finding:` lines."""
    out = []
    p = os.path.join(HOME, "KNOWN_FINDINGS.txt")
    if not os.path.exists(p):
        return out
    with open(p) as f:
        for line in f:
            line = line.strip()
            if not line.startswith("finding:"):
                continue
            rest = line[len("finding:"):].strip()
            head, _, text = rest.partition("::")
            d = dict(tok.split("=", 1) for tok in head.split() if "=" in tok)
            if "property" in d and "key" in d:
                out.append((d["property"], d["key"], text.strip()))
    return out


def finish(prop, tier, seed, level, merged, failures, rule, t0, guards=None, assumptions=None, extra_cov=None, exhaustive=False):
    """Write evidence, replay files, print verdict lines, return exit code."""
    findings = {(p, k): t for (p, k, t) in load_findings()}
    known_seen = {}
    real = []
    for v in merged["violations"]:
        key = (prop, v["sig"])
        if key in findings and "/unclassified/" not in v["sig"]:
            known_seen.setdefault(v["sig"], []).append(v)
        else:
            real.append(v)
    inconclusive = list(merged["inconclusive"])
    for fl in failures:
        inconclusive.append(f"shard {fl['shard']} failed: {fl['why']}")
    for g in guards or []:
        # g = (name, observed, needed)
        if g[1] < g[2]:
            inconclusive.append(f"guard {g[0]}: observed {g[1]} < needed {g[2]}")
    OUT = os.environ.get("VERIF_OUT") or HOME     # mutation experiments write elsewhere
    os.makedirs(os.path.join(OUT, "evidence"), exist_ok=True)
    os.makedirs(os.path.join(OUT, "replays"), exist_ok=True)
    import glob
    for old_rp in glob.glob(os.path.join(OUT, "replays", f"{prop}-{tier}-*.json")):
        try:
            os.unlink(old_rp)
        except OSError:
            pass
    lines = []
    for sig, vs in sorted(known_seen.items()):
        lines.append(f"KNOWN-FINDING: property={prop} {sig} :: {findings[(prop, sig)]} (seen {len(vs)}x this run)")
    nrep = 0
    bysig = {}
    for v in real:
        bysig[v["sig"]] = bysig.get(v["sig"], 0) + 1
    for sg in sorted(bysig):
        lines.append(f"  unlisted-signature {sg} x{bysig[sg]}")
    seen_sigs = set()
    real_sorted = []
    for v in real:   # one replay per signature first
        if v["sig"] not in seen_sigs:
            seen_sigs.add(v["sig"])
            real_sorted.append(v)
    real_sorted += [v for v in real if v not in real_sorted][:5]
    for v in real_sorted:
        nrep += 1
        rp = os.path.join(OUT, "replays", f"{prop}-{tier}-{seed}-{nrep}.json")
        with open(rp, "w") as f:
            json.dump({"property": prop, "tier": tier, "seed": seed, "sig": v["sig"], "msg": v["msg"], "witness": v["witness"]}, f, indent=1, default=repr)
        lines.append(f"VIOLATION property={prop} replay={rp}")
        lines.append(f"  sig={v['sig']} :: {v['msg'][:400]}")
        if nrep >= 40:
            break
    for r in inconclusive:
        lines.append(f"INCONCLUSIVE property={prop} reason={r}")
    cov = {
        "evaluations": int(merged["evaluations"]),
        "distinct_nontrivial": len(merged["distinct"]),
        "rule": rule,
        "samples": merged["samples"][:8] or [],
        "counters": {k: merged["counters"][k] for k in sorted(merged["counters"])},
        "guards": [{"name": g[0], "observed": g[1], "needed": g[2]} for g in (guards or [])],
        "known_findings_seen": {k: len(v) for k, v in known_seen.items()},
        "inconclusive": inconclusive,
        "shard_failures": failures[:5],
        "repo": repo_rev(),
        "notes": merged["notes"][:20],
    }
    if exhaustive:
        cov["exhaustive"] = True
    if extra_cov:
        cov.update(extra_cov)
    ev = {
        "property_id": prop,
        "tier": tier,
        "seed": int(seed),
        "level": level,
        "coverage": cov,
        "assumptions": assumptions or [],
        "wall_s": round(time.monotonic() - t0, 2),
        "violations": len(real),
    }
    with open(os.path.join(OUT, "evidence", f"{prop}.json"), "w") as f:
        json.dump(ev, f, indent=1, default=repr)
    for ln in lines:
        print(ln)
    verdict = "VIOLATED" if real else ("INCONCLUSIVE" if inconclusive else "HELD")
    print(f"{prop} tier={tier} seed={seed}: {verdict} on {cov['evaluations']} evaluations "
          f"({cov['distinct_nontrivial']} distinct non-trivial), {len(known_seen)} known finding(s), wall {ev['wall_s']}s")
    sys.stdout.flush()
    if real:
        return 1
    if inconclusive:
        return 2
    return 0
