#!/bin/bash
# usage: rebase_seeds.sh   - re-bases every stored seed patch that no longer applies to /repo HEAD: the patch is applied to the
# newest earlier commit it applies to, committed there in a scratch worktree, and cherry-picked onto HEAD (a real 3-way merge).
# Prints OK / CONFLICT per seed; conflicts are left for manual resolution (never patch --fuzz: it misplaces hunks).
WT=/var/tmp/xandikos-verif/rebwt
git -C /repo worktree remove --force $WT 2>/dev/null; git -C /repo worktree prune
git -C /repo worktree add -q --detach $WT HEAD; cd $WT; git config user.email b@x; git config user.name b
HEADC=$(git -C /repo rev-parse HEAD)
for d in /verif/seeded/*/; do
  n=$(basename $d)
  git -C /repo apply --check $d/patch.diff 2>/dev/null && continue
  base=""
  for c in $(git -C /repo log --format=%H -25); do git checkout -q --detach $c 2>/dev/null; git reset -q --hard; if git apply --check $d/patch.diff 2>/dev/null; then base=$c; break; fi; done
  if [ -z "$base" ]; then echo "NOBASE $n"; continue; fi
  git apply $d/patch.diff && git commit -qam "seed $n" && S=$(git rev-parse HEAD)
  git checkout -q --detach $HEADC
  if git cherry-pick -n $S >/dev/null 2>&1; then git diff HEAD > $d/patch.diff; echo "OK $n"; else echo "CONFLICT $n"; fi
  git reset -q --hard $HEADC
done
cd /verif; git -C /repo worktree remove --force $WT; git -C /repo worktree prune
