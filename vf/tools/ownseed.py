"""Run every own-* seeded change against its property's quick check and record the outcome in meta.json."""
import glob
import json
import os
import re
import subprocess
import sys

here = "/verif"
names = sys.argv[1:] or [os.path.basename(os.path.dirname(p)) for p in sorted(glob.glob("/verif/seeded/own-*/meta.json"))]
for n in names:
    mp = f"/verif/seeded/{n}/meta.json"
    m = json.load(open(mp))
    prop = m["breaks"]
    r = subprocess.run([f"{here}/vf/tools/mutcheck.sh", f"/verif/seeded/{n}/patch.diff", prop], capture_output=True, text=True, env=dict(os.environ, MUT_SIGS="8"))
    out = r.stdout
    t = re.search(r"repo tests with patch: (.*)", out)
    checks = {}
    cur = None
    for ln in out.splitlines():
        mm = re.match(r"(C\d\d) exit=(\d+) violations=(\d+) :: (.*)", ln)
        if mm:
            cur = mm.group(1)
            checks[cur] = {"exit": int(mm.group(2)), "violation_lines": int(mm.group(3)), "summary": mm.group(4), "signatures": []}
        elif "unlisted-signature" in ln and cur:
            checks[cur]["signatures"].append(ln.strip().replace("unlisted-signature ", ""))
    m["ran"] = [f"vf/tools/mutcheck.sh seeded/{n}/patch.diff {prop}   # scratch worktree of /repo HEAD + patch: repository tests, ./check {prop} --tier quick with VERIF_REPO=<worktree>"]
    m["result"] = {"repository_tests_with_patch": t.group(1) if t else None, "checks": checks}
    m["confirmed"] = bool(t and "2 failed, 144 passed" in t.group(1))
    m["detected"] = any(c["exit"] == 1 for c in checks.values())
    json.dump(m, open(mp, "w"), indent=1)
    print(n, "tests-unchanged" if m["confirmed"] else "TESTS CHANGED", "detected" if m["detected"] else "MISSED")
