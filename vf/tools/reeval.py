"""reeval.py <seed-name> "<history note>" <ID> [<ID>...]
Re-runs the given quick checks against a scratch worktree with the stored patch (vf/tools/mutcheck.sh) and
records the new result in seeded/<seed-name>/meta.json, keeping the first result under "history"."""
import json
import os
import re
import subprocess
import sys

name, note = sys.argv[1:3]
ids = sys.argv[3:]
here = os.path.dirname(os.path.dirname(os.path.dirname(os.path.abspath(__file__))))
d = os.path.join(here, "seeded", name)
meta = json.load(open(os.path.join(d, "meta.json")))
r = subprocess.run([os.path.join(here, "vf/tools/mutcheck.sh"), os.path.join(d, "patch.diff")] + ids, capture_output=True, text=True, env=dict(os.environ, MUT_SIGS="8"))
checks, cur = {}, None
for ln in r.stdout.splitlines():
    mm = re.match(r"(C\d\d) exit=(\d+) violations=(\d+) :: (.*)", ln)
    if mm:
        cur = mm.group(1)
        checks[cur] = {"exit": int(mm.group(2)), "violation_lines": int(mm.group(3)), "summary": mm.group(4), "signatures": []}
    elif "unlisted-signature" in ln and cur:
        checks[cur]["signatures"].append(ln.strip().replace("unlisted-signature ", ""))
was = meta.get("detected")
then = ", ".join(meta["result"]["checks"])
meta.setdefault("history", []).append(note if note.startswith("first caught") else ("initially MISSED (%s); strengthened: %s" % (then, note) if not was else note))
meta["result"]["checks"].update(checks)
meta["detected"] = any(c["exit"] == 1 for c in meta["result"]["checks"].values())
meta["ran"].append("vf/tools/mutcheck.sh seeded/%s/patch.diff %s   # after the strengthening" % (name, " ".join(ids)))
json.dump(meta, open(os.path.join(d, "meta.json"), "w"), indent=1)
print(name, "detected" if meta["detected"] else "MISSED", {k: v["exit"] for k, v in checks.items()})
