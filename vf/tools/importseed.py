"""importseed.py <agent-outdir> <i> <seed-name> <property> "<needs to manifest>" [extra check IDs...]
Confirms a sub-agent's change in a scratch worktree (demo passes clean / fails patched, repository tests
unchanged), runs the property's quick check against it and stores everything under /verif/seeded/<seed-name>/."""
import json
import os
import re
import shutil
import subprocess
import sys

outd, i, name, prop, needs = sys.argv[1:6]
extra = sys.argv[6:]
here = os.path.dirname(os.path.dirname(os.path.dirname(os.path.abspath(__file__))))
dest = os.path.join(here, "seeded", name)
os.makedirs(dest, exist_ok=True)
shutil.copy(os.path.join(outd, f"patch{i}.diff"), os.path.join(dest, "patch.diff"))
shutil.copy(os.path.join(outd, f"demo{i}.py"), os.path.join(dest, "demo.py"))
if os.path.exists(os.path.join(outd, "NOTES.md")):
    shutil.copy(os.path.join(outd, "NOTES.md"), os.path.join(dest, "agent-notes.md"))
env = dict(os.environ, MUT_SIGS="8")
r = subprocess.run([os.path.join(here, "vf/tools/seedeval.sh"), outd, i, prop] + extra, capture_output=True, text=True, env=env)
out = r.stdout
m = re.search(r"demo: clean=(\d+) patched=(\d+) ; repo tests with patch: (.*)", out)
checks = {}
cur = None
for ln in out.splitlines():
    mm = re.match(r"(C\d\d) exit=(\d+) violations=(\d+) :: (.*)", ln)
    if mm:
        cur = mm.group(1)
        checks[cur] = {"exit": int(mm.group(2)), "violation_lines": int(mm.group(3)), "summary": mm.group(4), "signatures": []}
    elif "unlisted-signature" in ln and cur:
        checks[cur]["signatures"].append(ln.strip().replace("unlisted-signature ", ""))
meta = {
    "id": name, "breaks": prop,
    "origin": "independent sub-agent that was given only the text of the property and a scratch worktree of /repo (nothing from /verif)",
    "needs_to_manifest": needs,
    "ran": [f"vf/tools/seedeval.sh {outd} {i} {prop} {' '.join(extra)}".strip() + "   # scratch worktree of /repo HEAD: demo on clean tree, apply patch, demo again, repository tests, ./check with VERIF_REPO=<worktree>"],
    "result": {"demo_exit_on_clean_tree": int(m.group(1)) if m else None, "demo_exit_with_patch": int(m.group(2)) if m else None, "repository_tests_with_patch": m.group(3) if m else None, "checks": checks},
    "confirmed": bool(m and m.group(1) == "0" and m.group(2) != "0" and "144 passed" in m.group(3) and "2 failed" in m.group(3)),
    "detected": any(c["exit"] == 1 for c in checks.values()),
}
old = os.path.join(dest, "meta.json")
if os.path.exists(old):
    try:
        o = json.load(open(old))
        if o.get("history"):
            meta["history"] = o["history"]
    except Exception:
        pass
json.dump(meta, open(old, "w"), indent=1)
print(name, "confirmed" if meta["confirmed"] else "NOT CONFIRMED", "detected" if meta["detected"] else "MISSED", {k: v["exit"] for k, v in checks.items()})
