#!/bin/bash
# usage: recheck.sh <seed-name>...   - re-runs, for each seed, the first check that detected it; prints a line per seed
for n in "$@"; do
  ID=$(/venv/bin/python -c "
import json,sys
m=json.load(open('/verif/seeded/$n/meta.json'))
ids=[k for k,v in m['result']['checks'].items() if v['exit']==1]
pref=[i for i in ids if i==m['breaks']] or ids
print(pref[0] if pref else m['breaks'])")
  r=$(/verif/vf/tools/mutcheck.sh /verif/seeded/$n/patch.diff $ID | grep "exit=\|repo tests" | cut -c1-70 | tr '\n' ' ')
  echo "$n [$ID]: $r"
done
