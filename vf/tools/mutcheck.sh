#!/bin/bash
# usage: mutcheck.sh <patch.diff> <ID> [<ID> ...]
# Applies a patch to a scratch worktree of /repo (never to /repo itself), confirms the
# repository's own tests are unchanged, runs the given checks against the worktree
# (VERIF_REPO) with outputs redirected (VERIF_OUT), prints one line per check, cleans up.
set -u
PATCH="$(readlink -f "$1")"; shift
HERE="$(cd "$(dirname "${BASH_SOURCE[0]}")/../.." && pwd)"
WT=$(mktemp -d /var/tmp/xandikos-verif/mut-XXXXXX)
OUT=$(mktemp -d /var/tmp/xandikos-verif/mutout-XXXXXX)
rmdir "$WT"
git -C /repo worktree add -q --detach "$WT" HEAD || exit 9
cleanup() { git -C /repo worktree remove --force "$WT" 2>/dev/null; rm -rf "$OUT" "$WT"; }
trap cleanup EXIT
if ! git -C "$WT" apply "$PATCH"; then echo "PATCH DOES NOT APPLY"; exit 8; fi
T=$(cd "$WT" && /venv/bin/python -m pytest -q -p no:cacheprovider xandikos/tests 2>&1 | tail -1)
echo "repo tests with patch: $T"
for ID in "$@"; do
  R=$(cd "$HERE" && VERIF_REPO="$WT" VERIF_OUT="$OUT" ./check "$ID" --tier "${MUT_TIER:-quick}" 2>&1)
  rc=$?
  nv=$(echo "$R" | grep -c '^VIOLATION')
  echo "$ID exit=$rc violations=$nv :: $(echo "$R" | tail -1 | cut -c1-160)"
  echo "$R" | grep 'unlisted-signature' | head -${MUT_SIGS:-6}
done
