"""mkpatch.py <name> : build /verif/seeded/<name>/patch.diff from the OWN table below
(old/new snippets applied to /repo HEAD contents, never to /repo itself)."""
import difflib
import json
import os
import subprocess
import sys

OWN = {
 "own-C05-commit-outside-lock": dict(prop="C05", needs="two writers on a tree-git store interleaving between index write and commit", edits=[("xandikos/store/git.py", '''                if encoded_name not in index or blob.id != index[encoded_name].sha:
                    self.repo.object_store.add_object(blob)
                    index[encoded_name] = index_entry_from_stat(st, blob.id)
                    self._commit_tree(
                        index, message.encode(DEFAULT_ENCODING), author=author
                    )
                return blob.id
''', '''                changed = (
                    encoded_name not in index or blob.id != index[encoded_name].sha
                )
                if changed:
                    self.repo.object_store.add_object(blob)
                    index[encoded_name] = index_entry_from_stat(st, blob.id)
            if changed:
                # commit after releasing the index lock, to keep the lock short
                self._commit_tree(index, message.encode(DEFAULT_ENCODING), author=author)
            return blob.id
''')]),
 "own-C04-vdir-write-in-place": dict(prop="C04", needs="process death between open() and close() of a vdir member write", edits=[("xandikos/store/vdir.py", '''        tmppath = os.path.join(self.path, name + ".tmp")
        with open(tmppath, "wb") as f:
            for chunk in fi.normalized():
                f.write(chunk)
        os.replace(tmppath, path)
''', '''        with open(path, "wb") as f:
            for chunk in fi.normalized():
                f.write(chunk)
''')]),
 "own-C01-tree-update-ignored": dict(prop="C01", needs="overwrite of an existing member on a tree-git store", edits=[("xandikos/store/git.py", '''                if encoded_name not in index or blob.id != index[encoded_name].sha:''', '''                if encoded_name not in index:''')]),
 "own-C07-iter-changes-inverted": dict(prop="C07", needs="sync-collection with a non-empty token after a change", edits=[("xandikos/store/git.py", '''            if old_etag != new_etag:
                yield (name, new_content_type, old_etag, new_etag)''', '''            if old_etag == new_etag:
                yield (name, new_content_type, old_etag, new_etag)''')]),
 "own-C09-tree-delete-keeps-file": dict(prop="C09", needs="DELETE of a member of a tree-git collection, then git status", edits=[("xandikos/store/git.py", '''            with locked_index(self.repo.index_path()) as index:
                os.unlink(p)
                del index[name.encode(DEFAULT_ENCODING)]''', '''            with locked_index(self.repo.index_path()) as index:
                del index[name.encode(DEFAULT_ENCODING)]''')]),
 "own-C13-normpath-relative": dict(prop="C13", needs="a traversal target whose dot segment is the last path segment or percent-encoded", edits=[("xandikos/web.py", '''        relpath = posixpath.normpath("/" + relpath)
        return os.path.join(self.path, relpath.lstrip("/"))''', '''        relpath = posixpath.normpath(relpath.lstrip("/"))
        return os.path.join(self.path, relpath)''')]),
 "own-C14-validate-only-new": dict(prop="C14", needs="an invalid body PUT over an existing member", edits=[("xandikos/store/git.py", '''        fi.validate()
        try:
            uid = fi.get_uid()
        except (KeyError, NotImplementedError):
            uid = None
        self._check_duplicate(uid, name, replace_etag)
        if message is None:''', '''        if replace_etag is None:
            fi.validate()
        try:
            uid = fi.get_uid()
        except (KeyError, NotImplementedError, InvalidFileContents):
            uid = None
        self._check_duplicate(uid, name, replace_etag)
        if message is None:''')]),
 "own-C16-no-trailing-slash": dict(prop="C16", needs="PROPFIND on a collection URL without trailing slash", edits=[("xandikos/webdav.py", '''        if COLLECTION_RESOURCE_TYPE in resource.resource_types:
            # caldavzap/carddavmate require this
            # https://tools.ietf.org/html/rfc4918#section-5.2
            # mentions that a trailing slash *SHOULD* be added for
            # collections.
            href = ensure_trailing_slash(href)
        yield (href, resource)''', '''        yield (href, resource)
        if COLLECTION_RESOURCE_TYPE in resource.resource_types:
            href = ensure_trailing_slash(href)''')]),
 "own-C06-uid-casefold": dict(prop="C06", needs="two UIDs differing only in case", edits=[("xandikos/store/git.py", '''            self._fname_to_uid[name] = (etag, uid)
            if uid is not None:
                self._uid_to_fname[uid] = (name, etag)''', '''            if uid is not None:
                uid = uid.lower()
            self._fname_to_uid[name] = (etag, uid)
            if uid is not None:
                self._uid_to_fname[uid] = (name, etag)'''), ("xandikos/store/git.py", '''        if uid is not None and self._check_for_duplicate_uids:
            self._scan_uids()
            try:
                (existing_name, _) = self._uid_to_fname[uid]''', '''        if uid is not None and self._check_for_duplicate_uids:
            self._scan_uids()
            try:
                (existing_name, _) = self._uid_to_fname[uid.lower()]''')]),
 "own-C11-date-in-utc": dict(prop="C11", needs="a DATE or floating value queried with a CALDAV:timezone other than UTC", edits=[("xandikos/icalendar.py", '''    if not getattr(dt, "time", None):
        dt = datetime.combine(dt, time())
    if dt.tzinfo is None:
        dt = dt.replace(tzinfo=default_timezone)''', '''    if not getattr(dt, "time", None):
        dt = datetime.combine(dt, time(), tzinfo=timezone.utc)
    if dt.tzinfo is None:
        dt = dt.replace(tzinfo=default_timezone)''')]),
 "own-C12-limit-off-by-one": dict(prop="C12", needs="an addressbook-query with a limit smaller than the number of matches", edits=[("xandikos/carddav.py", '''            if nresults is not None and i >= nresults:''', '''            if nresults is not None and i > nresults:''')]),
 "own-C08-etag-of-collection-cached": dict(prop="C08", needs="a change followed by PROPFIND of the collection getetag in the same process", edits=[("xandikos/web.py", '''    async def get_etag(self) -> str:
        return create_strong_etag(self.store.get_ctag())

    def members(self)''', '''    async def get_etag(self) -> str:
        if getattr(self.store, "_cached_collection_etag", None) is None:
            self.store._cached_collection_etag = create_strong_etag(self.store.get_ctag())
        return self.store._cached_collection_etag

    def members(self)''')]),
 "own-C03-star-only-for-put": dict(prop="C03", needs="DELETE with If-Match: *", edits=[("xandikos/webdav.py", '''        if if_match is not None and not etag_matches(if_match, current_etag):
            return Response(status=412, reason="Precondition Failed")
        pr.delete_member(item_name, current_etag)''', '''        if if_match is not None and if_match.strip('"') != current_etag.strip('"'):
            return Response(status=412, reason="Precondition Failed")
        pr.delete_member(item_name, current_etag)''')]),
 "own-C15-comment-not-saved": dict(prop="C15", needs="PROPPATCH of DAV:comment followed by a restart", edits=[("xandikos/store/config.py", '''            del self._configparser["DEFAULT"]["comment"]
        self._save("Set comment.")''', '''            del self._configparser["DEFAULT"]["comment"]''')]),
 "own-C18-principal-not-normalised": dict(prop="C18", needs="a principal path without trailing slash or nested", edits=[("xandikos/web.py", '''    def _mark_as_principal(self, path):
        self._user_principals.add(posixpath.normpath(path))''', '''    def _mark_as_principal(self, path):
        self._user_principals.add(path.rstrip("/") + "/")''')]),
 "own-C02-put-returns-matched-etag": dict(prop="C02", needs="PUT that overwrites an existing member with different bytes", edits=[("xandikos/webdav.py", '''                return Response(status="204 No Content", headers=[("ETag", new_etag)])''', '''                return Response(status="204 No Content", headers=[("ETag", current_etag)])''')]),
 "own-C10-index-keyed-by-name": dict(prop="C10", needs="a query answered from the index after a member was overwritten", edits=[("xandikos/store/index.py", '''        if etag not in self._in_index:
            raise KeyError(etag)
        indexes = {}
        for k in keys:
            if k not in self._indexes:
                raise AssertionError
            try:
                indexes[k] = self._indexes[k][etag]''', '''        if name not in self._in_index:
            raise KeyError(etag)
        indexes = {}
        for k in keys:
            if k not in self._indexes:
                raise AssertionError
            try:
                indexes[k] = self._indexes[k][name]'''), ("xandikos/store/index.py", '''            self._indexes[k][etag] = v
        self._in_index.add(etag)''', '''            self._indexes[k][name] = v
        self._in_index.add(name)''')]),
}


def build(name):
    m = OWN[name]
    d = os.path.join("/verif/seeded", name)
    os.makedirs(d, exist_ok=True)
    out = []
    by_file = {}
    for (path, old, new) in m["edits"]:
        src = by_file.get(path)
        if src is None:
            src = subprocess.run(["git", "-C", "/repo", "show", "HEAD:" + path], capture_output=True, text=True, check=True).stdout
            by_file[path] = (src, src)
        orig, cur = by_file[path]
        if cur.count(old) != 1:
            raise SystemExit(f"{name}: snippet occurs {cur.count(old)} times in {path}")
        by_file[path] = (orig, cur.replace(old, new))
    for path, (orig, cur) in by_file.items():
        out += list(difflib.unified_diff(orig.splitlines(True), cur.splitlines(True), "a/" + path, "b/" + path))
    with open(os.path.join(d, "patch.diff"), "w") as f:
        f.write("".join(out))
    meta = {"id": name, "breaks": m["prop"], "needs_to_manifest": m["needs"], "origin": "written by the framework author from the 'should catch' lists of DESIGN.md section 4", "demonstration": None}
    mp = os.path.join(d, "meta.json")
    if os.path.exists(mp):
        try:
            old = json.load(open(mp))
            meta.update({k: v for k, v in old.items() if k in ("ran", "result")})
        except Exception:
            pass
    json.dump(meta, open(mp, "w"), indent=1)
    return d


if __name__ == "__main__":
    names = sys.argv[1:] or sorted(OWN)
    for n in names:
        print(build(n))
