#!/bin/bash
# usage: seedround.sh <round-tag> <ID> [<ID>...]
# Prepares, for each property, a scratch worktree /tmp/<tag>-<ID> of /repo HEAD and an output directory
# /tmp/<tag>-<ID>-out holding PROPERTY.txt (text of the property only) and PROMPT.txt (generic instructions
# plus the one-line descriptions of the changes that already exist for this property, so that a new
# agent produces different mechanisms).  Nothing else from /verif is given to the agent.
TAG=$1; shift
HERE="$(cd "$(dirname "${BASH_SOURCE[0]}")/../.." && pwd)"
for ID in "$@"; do
  WT=/tmp/$TAG-$ID; OUT=/tmp/$TAG-$ID-out
  git -C /repo worktree add -q --detach "$WT" HEAD || continue
  mkdir -p "$OUT"
  /venv/bin/python - "$ID" "$WT" "$OUT" "$HERE" <<'PY'
import json, sys, glob, os
pid, wt, out, here = sys.argv[1:5]
for l in open(os.path.join(here, "properties.jsonl")):
    d = json.loads(l)
    if d["id"] == pid:
        open(os.path.join(out, "PROPERTY.txt"), "w").write("%s: %s\n\nSTATEMENT: %s\n\nQUANTIFIED OVER: %s\n" % (pid, d["title"], d["statement"], d["quantifier"]["text"]))
t = open(os.path.join(here, "vf/tools/seedprompt.txt")).read().replace("/tmp/@WT@", wt).replace("@WT@", os.path.basename(wt))
ex = []
for p in sorted(glob.glob(os.path.join(here, "seeded", "*", "meta.json"))):
    m = json.load(open(p))
    if m["breaks"] == pid:
        ex.append(" - %s: %s" % (m["id"].split("-", 2)[-1].replace("-", " "), m.get("needs_to_manifest", "")))
t += "\n\n%d changes for this property already exist; produce two that are DIFFERENT in mechanism (other code site, other trigger):\n%s\n" % (len(ex), "\n".join(ex))
t += ("Aim for subtle ones: a boundary case, an interaction between two or three requests, state that survives in a cached object, a restart or a crash at a particular point, "
      "behaviour that differs between the two front ends (aiohttp CLI vs WSGI) or between the storage back ends (tree git / bare git / vdir), only with a route prefix, "
      "only for a particular but legitimate input shape, or only under a particular interleaving of two requests.\n")
open(os.path.join(out, "PROMPT.txt"), "w").write(t)
PY
  echo "$ID: $WT $OUT"
done
