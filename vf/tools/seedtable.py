"""Print the markdown table of /verif/seeded/*/meta.json for DESIGN.md section 9.6."""
import glob
import json
import os

rows = []
for p in sorted(glob.glob("/verif/seeded/*/meta.json")):
    m = json.load(open(p))
    res = m.get("result") or {}
    checks = res.get("checks") or {}
    det = ", ".join(f"{k}" for k, v in checks.items() if v.get("exit") == 1) or ("-" if checks else "?")
    sig = ""
    for k, v in checks.items():
        if v.get("exit") == 1 and v.get("signatures"):
            sig = v["signatures"][0].split(" x")[0]
            break
    hist = "; ".join(m.get("history", []))
    origin = "own" if m["id"].startswith("own-") else "sub-agent"
    rows.append((m["id"], m["breaks"], origin, m.get("needs_to_manifest", ""), det, sig, hist))
print("| seeded change | breaks | origin | needs, to manifest | caught by (quick) | first signature | note |")
print("|---|---|---|---|---|---|---|")
for r in rows:
    print("| " + " | ".join(str(x).replace("|", "\\|") for x in r) + " |")
