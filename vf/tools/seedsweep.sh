#!/bin/bash
# usage: seedsweep.sh <tier> <seed> [<seed>...]   - every check once per seed, outputs redirected; prints non-HELD lines
TIER=$1; shift
OUT=/var/tmp/xandikos-verif/sweep-$TIER; mkdir -p $OUT
cd "$(dirname "$0")/../.."
for S in "$@"; do
  for P in C01 C02 C03 C04 C05 C06 C07 C08 C09 C10 C11 C12 C13 C14 C15 C16 C17 C18; do
    R=$(VERIF_SEED=$S VERIF_OUT=$OUT ./check $P --tier $TIER 2>&1); rc=$?
    echo "seed=$S $P rc=$rc $(echo "$R" | tail -1 | cut -c1-140)"
    if [ $rc -ne 0 ]; then echo "$R" | grep -v '^KNOWN' | grep 'unlisted-signature\|INCONCLUSIVE' | head -8; fi
  done
done
