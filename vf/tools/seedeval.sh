#!/bin/bash
# usage: seedeval.sh <outdir> <i> <ID> [<ID>...]   (evaluates <outdir>/patch<i>.diff with <outdir>/demo<i>.py)
set -u
OUTD="$1"; I="$2"; shift; shift
PATCH="$OUTD/patch$I.diff"; DEMO="$OUTD/demo$I.py"
HERE="$(cd "$(dirname "${BASH_SOURCE[0]}")/../.." && pwd)"
WT=$(mktemp -d /var/tmp/xandikos-verif/mut-XXXXXX); OUT=$(mktemp -d /var/tmp/xandikos-verif/mutout-XXXXXX); rmdir "$WT"
git -C /repo worktree add -q --detach "$WT" HEAD || exit 9
cleanup() { git -C /repo worktree remove --force "$WT" 2>/dev/null; rm -rf "$OUT" "$WT"; }
trap cleanup EXIT
export HOME=$OUT/home; mkdir -p $HOME
( cd "$OUT" && PYTHONPATH="$WT" timeout 300 /venv/bin/python "$DEMO" >/dev/null 2>&1 ); d0=$?
if ! git -C "$WT" apply "$PATCH"; then echo "PATCH DOES NOT APPLY"; exit 8; fi
( cd "$OUT" && PYTHONPATH="$WT" timeout 300 /venv/bin/python "$DEMO" >/dev/null 2>&1 ); d1=$?
T=$(cd "$WT" && /venv/bin/python -m pytest -q -p no:cacheprovider xandikos/tests 2>&1 | tail -1)
echo "demo: clean=$d0 patched=$d1 ; repo tests with patch: $T"
for ID in "$@"; do
  R=$(cd "$HERE" && VERIF_REPO="$WT" VERIF_OUT="$OUT" ./check "$ID" --tier "${MUT_TIER:-quick}" 2>&1); rc=$?
  echo "$ID exit=$rc violations=$(echo "$R" | grep -c '^VIOLATION') :: $(echo "$R" | tail -1 | cut -c1-150)"
  echo "$R" | grep 'unlisted-signature' | head -${MUT_SIGS:-5}
done
