"""Resolve cherry-pick conflicts in which the seed side touches the `with <lock> as index:` line that fix d3b44c6 extended by
`, self._keep_file(name, index)`: keep the seed's lines, with the extension added to its `with` line."""
import re
import sys

p = sys.argv[1]
L = open(p).read().split("\n")
out = []
i = 0
ok = True
while i < len(L):
    if L[i].startswith("<<<<<<< "):
        j = L.index("=======", i)
        k = next(x for x in range(j, len(L)) if L[x].startswith(">>>>>>> "))
        theirs = L[j + 1:k]
        res = []
        done = False
        for t in theirs:
            m = re.match(r"^(\s*)with (.+) as index:$", t)
            if m and not done:
                ind = m.group(1)
                res += [f"{ind}with {m.group(2)} as index, self._keep_file(", f"{ind}    name, index", f"{ind}):"]
                done = True
            else:
                res.append(t)
        if not done:
            ok = False
            out += L[i:k + 1]
        else:
            out += res
        i = k + 1
    else:
        out.append(L[i])
        i += 1
open(p, "w").write("\n".join(out))
sys.exit(0 if ok else 1)
