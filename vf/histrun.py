"""Run one shard of random histories with a set of monitors."""
import os
import random
import time
import traceback

from . import common, driver as D, world as W, davxml as X


class Monitor:
    """Base class. Monitors record violations into self.res (common.Result)."""

    def __init__(self, res, cfg):
        self.res = res
        self.cfg = cfg

    def on_step(self, w, s, r):
        pass

    def on_audit(self, w, obs, full):
        pass

    def finish(self, w):
        pass

    def viol(self, w, sig, msg, extra=None):
        wit = {"config": self.cfg, "history_tail": w.history_tail(30)}
        if extra:
            wit["detail"] = extra
        self.res.violation(sig, msg, wit)


def prelude(w, d, rng, res):
    """short scripted sequences at the start of every history: combinations that a random walk over single operations
    meets too rarely (a refused or repeated request directly before a collection is deleted and made again; the same
    name coming back after an overwrite).  Everything goes through the World, so every monitor sees and audits it."""
    from . import gen
    k = rng.randrange(4)
    col = "/user/calendars/pre%d/" % k
    w.mkcol(col, "calendar")
    if col not in w.cols:
        return
    w.full_audit([col])
    uid = d.uids[k % len(d.uids)]
    t = [w.new_token() for _ in range(4)]
    first_body = gen.ical(rng, uid, t[0], rich=False)
    w.put(col, "a.ics", first_body, op="put_new", uid=uid, token=t[0])
    w.full_audit([col])
    if k % 2 == 0:
        # the last request before the collection goes away is one the server refuses ...
        w.put(col, "c.ics", gen.ical(rng, uid, t[1], rich=False), op="put_uidconflict", uid=uid, token=t[1])
    else:
        # ... or one that changes nothing
        m = w.cols[col].members.get("a.ics")
        if m is not None:
            w.put(col, "a.ics", m.served or m.uploaded, op="put_same", uid=uid, token=t[0])
    w.full_audit([col])
    w.delete(col, None)
    w.mkcol(col, "calendar", how=rng.choice(["auto", "mkcol-ext"]))
    if col in w.cols:
        w.full_audit([col, "/user/calendars/"])
        if k % 2 == 1:
            # ... the very bytes the old collection held (restored from the client's copy): nothing of the old collection is left
            w.put(col, "c.ics", first_body, op="put_into_recreated", uid=uid, token=t[0])
            res.count("scripted_identical_bytes_into_recreated_collection")
        else:
            w.put(col, "c.ics", gen.ical(rng, uid, t[2], rich=False), op="put_new", uid=uid, token=t[2])
        w.full_audit([col])
        if k >= 2:
            w.put(col, "a.ics", gen.ical(rng, d.uids[(k + 1) % len(d.uids)], t[3], rich=False), op="put_new", uid=d.uids[(k + 1) % len(d.uids)], token=t[3])
            w.full_audit([col])
    if col in w.cols:
        # a member whose extension is written in capitals is a calendar object like any other
        u2 = d.uids[(k + 2) % len(d.uids)]
        t5, t6 = w.new_token(), w.new_token()
        w.put(col, "UPPER.ICS", gen.ical(rng, u2, t5, rich=False), op="put_new", ctype="text/calendar", uid=u2, token=t5)
        w.full_audit([col])
        w.put(col, "lower.ics", gen.ical(rng, u2, t6, rich=False), op="put_uidconflict", uid=u2, token=t6)
        w.full_audit([col])
    if col in w.cols:
        # a member whose name begins with a dot is a member like any other (created, changed; left in place)
        u3 = "dot-" + w.new_token()
        t7, t8 = w.new_token(), w.new_token()
        w.put(col, ".dot.ics", gen.ical(rng, u3, t7, rich=False), op="put_new", uid=u3, token=t7)
        w.full_audit([col])
        w.put(col, ".dot.ics", gen.ical(rng, u3, t8, rich=False), op="put_change", uid=u3, token=t8)
        w.full_audit([col])
    res.count("scripted_preludes")


def defaults_prelude(w, d, rng, res):
    """a server run with --defaults: what its users do to the two collections it made for them, followed by a restart
    (which runs the start-up code again over what they left)."""
    from . import gen
    pr = w.principal.rstrip("/")
    cal, ab = pr + "/calendars/calendar/", pr + "/contacts/addressbook/"
    if cal not in w.cols or ab not in w.cols:
        return
    t = [w.new_token() for _ in range(3)]
    w.put(cal, "first.ics", gen.ical(rng, "dflt-" + t[0], t[0], rich=False), op="put_new", uid="dflt-" + t[0], token=t[0])
    w.put(ab, "first.vcf", gen.vcard(rng, "dflt-" + t[1], t[1], rich=False), op="put_new", uid="dflt-" + t[1], token=t[1])
    k = rng.randrange(3)
    if k == 0:
        # a display name typed with a blank at the end
        w.proppatch(ab, sets=[(X.P_DISPLAYNAME, "Contacts " + t[2] + " ")])
    elif k == 1:
        # the default calendar deleted and its URL used for a plain collection
        w.delete(cal, None)
        w.mkcol(cal, "plain")
    else:
        # the default address book deleted and its URL used for a calendar
        w.delete(ab, None)
        w.mkcol(ab, "calendar")
    w.full_audit([cal, ab])
    w.restart()
    w.full_audit(None)
    if k == 0 and ab in w.cols:
        w.proppatch(ab, sets=[(X.P_DISPLAYNAME, "Contacts " + w.new_token())])
        w.full_audit([ab])
    res.count("scripted_defaults_preludes")
    res.count("scripted_defaults_prelude:%d" % k)


def run_history(args, monitor_classes, res, weights=None, driver_kw=None, setup=None):
    """args: {fe, prefix, seed, steps, histories, bare(bool), ...}"""
    seed = args["seed"]
    for hi in range(args.get("histories", 1)):
        hseed = seed * 1000 + hi
        rng = random.Random(hseed)
        base = common.mkscratch("h")
        cfg = {"fe": args["fe"], "prefix": args.get("prefix", "/"), "seed": hseed, "steps": args["steps"], "bare": args.get("bare", True)}
        for k_ in ("autocreate", "weights"):
            if args.get(k_):
                cfg[k_] = args[k_]
        w = W.World(base, fe_kind=args["fe"], prefix=args.get("prefix", "/"), seed=hseed, agent=args.get("agent"), extra_args=args.get("extra_args", ()),
                    autocreate=args.get("autocreate", "autocreate"))
        w.res = res
        if args.get("server_gitconfig"):
            w.server_gitconfig = args["server_gitconfig"]
            res.count("histories_with_a_git_configuration_for_the_server_account")
        t0 = time.monotonic()
        try:
            # principal + home sets exist before bare repositories are put there
            w.start()
            if args.get("bare", True):
                w.stop()
                meta = "gitconfig" if rng.random() < 0.5 else "file"
                w.provision_bare("/user/calendars/barecal/", "calendar", meta=meta)
                if rng.random() < 0.5:
                    w.provision_bare("/user/contacts/bareab/", "addressbook", meta="file" if meta == "gitconfig" else "gitconfig")
                w.start()
            if w.adopt_defaults():
                res.count("histories_with_default_collections")
            w.monitors = [mc(res, cfg) for mc in monitor_classes]
            d = D.Driver(w, rng, weights=weights, **(driver_kw or {}))
            # home sets are collections of the model too (plain, tree)
            for hp in ("/user/calendars/", "/user/contacts/"):
                c = W.Col(hp, "plain", "tree")
                c.subcols = {p for p in w.cols if p.startswith(hp) and p != hp}
                w.cols[hp] = c
            # the ways a client can make a calendar / an address book (a plain collection typed afterwards included)
            how = random.Random(hseed + 7).choice(["auto", "auto", "mkcol-ext", "mkcol-then-proppatch", "mkcol-then-proppatch", "mkcol-ext-rt-last"])
            w.mkcol("/user/calendars/cal0/", "calendar", how=how)
            res.count("cal0_created_by:" + how)
            w.mkcol("/user/contacts/ab0/", "addressbook", how=random.Random(hseed + 8).choice(["auto", "auto", "mkcol-then-proppatch"]))
            # a plain collection (type guessed from its members), half of the time with properties of its own
            w.mkcol("/user/calendars/pl0/", "plain")
            if random.Random(hseed + 9).random() < 0.6:
                w.proppatch("/user/calendars/pl0/", sets=[(X.P_DISPLAYNAME, "plain with settings")])
            d.coln = 1
            prelude(w, d, rng, res)
            defaults_prelude(w, d, rng, res)
            if setup:
                setup(w, d, rng)
            w.full_audit(None)
            done = 0
            tries = 0
            while done < args["steps"] and tries < args["steps"] * 20:
                tries += 1
                if time.monotonic() - t0 > args.get("budget_s", 600):
                    res.inconclusive.append("history budget exhausted after %d steps" % done)
                    break
                op = d.step()
                if op is not None:
                    done += 1
            w.full_audit(None)
            for m in w.monitors:
                m.finish(w)
            res.evaluations += done
            for k, v in d.counts.items():
                res.count("op:" + k, v)
            res.count("histories")
            res.count("restarts", w.restarts)
            res.count("requests", w.n)
            if hi == 0:
                res.sample({"config": cfg, "first_steps": [s.brief() for s in w.steps[:12]]}, cap=2)
        except Exception:
            res.inconclusive.append("harness exception: " + traceback.format_exc()[-1500:])
        finally:
            try:
                w.stop()
            except Exception:
                pass
            common.rmtree(base)
    return res
