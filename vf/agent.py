"""In-process monitoring agent: a sys.addaudithook observer.

Nothing in /repo knows about it; the harness installs it in processes it
starts itself (env XANDIKOS_VERIF=1).  Capabilities:

* event log: every file-system audit event -> one JSON line on an O_APPEND fd
* delay injection: sleep 0..N ms at *mutating* events (between file
  operations, where a thread really can be pre-empted)
* crash injection: os._exit(137) immediately before the k-th mutating event
  below a directory (used by the crash enumerator)
"""
import json
import os
import random
import sys
import threading
import time

FS_EVENTS = {
    "open", "os.listdir", "os.scandir", "os.mkdir", "os.rename", "os.remove", "os.rmdir",
    "os.chmod", "os.chown", "os.truncate", "os.link", "os.symlink", "os.utime", "os.walk",
    "shutil.rmtree", "shutil.copyfile", "shutil.copytree", "shutil.move", "shutil.copymode",
    "shutil.copystat", "glob.glob", "glob.glob/2", "os.chdir", "tempfile.mkstemp", "tempfile.mkdtemp",
    "pathlib.Path.glob", "pathlib.Path.rglob", "os.exec", "os.posix_spawn", "subprocess.Popen", "os.system",
    "os.mkfifo", "os.mknod", "os.removexattr", "os.setxattr", "os.getxattr", "os.listxattr", "os.chflags",
}
MUTATING = {
    "os.mkdir", "os.rename", "os.remove", "os.rmdir", "os.chmod", "os.chown", "os.truncate", "os.link",
    "os.symlink", "os.utime", "shutil.rmtree", "shutil.copyfile", "shutil.copytree", "shutil.move",
    "os.mkfifo", "os.mknod", "shutil.copymode", "shutil.copystat", "os.setxattr", "os.removexattr",
}
_WRITE_FLAGS = os.O_WRONLY | os.O_RDWR | os.O_CREAT | os.O_TRUNC | os.O_APPEND


def is_mutating(event, args):
    if event in MUTATING:
        return True
    if event == "open":
        mode = args[1] if len(args) > 1 else None
        flags = args[2] if len(args) > 2 else 0
        if isinstance(mode, str) and any(c in mode for c in "wax+"):
            return True
        if isinstance(flags, int) and flags & _WRITE_FLAGS:
            return True
    return False


def _s(x):
    if isinstance(x, bytes):
        return x.decode("utf-8", "surrogateescape")
    if isinstance(x, (str, int)) or x is None:
        return x
    try:
        return os.fspath(x) if hasattr(x, "__fspath__") else repr(x)
    except Exception:
        return repr(x)


class Agent:
    def __init__(self, log=None, delay_ms=0, delay_seed=0, delay_under=None, crash_under=None, crash_at=None, only_threads=False, delay_read_ms=0, delay_read_re=None):
        self.fd = os.open(log, os.O_WRONLY | os.O_CREAT | os.O_APPEND, 0o644) if log else None
        self.seq = 0
        self.delay_ms = delay_ms
        self.rng = random.Random(delay_seed)
        self.delay_under = delay_under
        self.crash_under = crash_under
        self.crash_at = crash_at
        self.mut_count = 0
        self.lock = threading.Lock()
        self.only_threads = only_threads
        self.enabled = True
        self.in_hook = threading.local()
        self.crash_after = False   # True: die right after the crash_at-th mutation returned, not before it
        self.mut_log = []  # (event, path) of mutating events under crash_under (recording pass)
        self.record_mut = False
        # delay injection at *reads* of mutable shared files (widens check-then-read windows)
        self.delay_read_ms = delay_read_ms
        import re as _re
        self.delay_read_re = _re.compile(delay_read_re) if delay_read_re else None

    def hook(self, event, args):
        if not self.enabled or event not in FS_EVENTS:
            return
        if getattr(self.in_hook, "v", False):
            return
        self.in_hook.v = True
        try:
            a0 = _s(args[0]) if args else None
            mut = is_mutating(event, args)
            if self.fd is not None:
                with self.lock:
                    self.seq += 1
                    rec = [self.seq, event, a0]
                    if event == "open":
                        rec += [_s(args[1]) if len(args) > 1 else None, args[2] if len(args) > 2 and isinstance(args[2], int) else None]
                    elif event == "subprocess.Popen":
                        # (executable, args, cwd, env): a relative executable is relative to cwd
                        rec += [_s(args[2]) if len(args) > 2 else None]
                    elif len(args) > 1:
                        rec += [_s(args[1])]
                    rec.append(1 if mut else 0)
                    rec.append(os.getcwd())
                    os.write(self.fd, (json.dumps(rec) + "\n").encode("utf-8", "surrogateescape"))
            if mut and self.crash_under is not None and isinstance(a0, str):
                p = os.path.abspath(a0)
                hit = p.startswith(self.crash_under)
                if not hit and len(args) > 1 and isinstance(_s(args[1]), str) and event in ("os.rename", "os.link", "os.symlink", "shutil.move", "shutil.copyfile"):
                    hit = os.path.abspath(_s(args[1])).startswith(self.crash_under)
                if hit:
                    self.mut_count += 1
                    if self.record_mut:
                        self.mut_log.append((event, p, _s(args[1]) if len(args) > 1 else None, args[2] if event == "open" and len(args) > 2 and isinstance(args[2], int) else None))
                    if self.crash_at is not None and self.mut_count == self.crash_at:
                        if not self.crash_after:
                            os._exit(137)
                        self._die_at_next_step()
            if (not mut) and event == "open" and self.delay_read_ms and self.delay_read_re is not None and isinstance(a0, str) and self.delay_read_re.search(a0):
                with self.lock:
                    d = self.rng.random() * self.delay_read_ms / 1000.0
                time.sleep(d)
            if mut and self.delay_ms and isinstance(a0, str):
                if self.delay_under is None or os.path.abspath(a0).startswith(self.delay_under):
                    if not self.only_threads or threading.current_thread() is not threading.main_thread():
                        with self.lock:
                            d = self.rng.random() * self.delay_ms / 1000.0
                        time.sleep(d)
        finally:
            self.in_hook.v = False


def _die(frame, event, arg):
    if event in ("line", "return", "exception"):
        os._exit(137)
    return _die


def _die_at_next_step(self):
    """the mutating call is executing in C below the innermost Python frame that is not
    ours: die at that frame's next line / return / exception event, i.e. after the call
    returned and before the program does anything else (a close() or flush included)"""
    f = sys._getframe(1)
    here = os.path.dirname(os.path.abspath(__file__))
    while f is not None and os.path.abspath(f.f_code.co_filename).startswith(here):
        f = f.f_back
    if f is None:
        os._exit(137)
    f.f_trace = _die
    f.f_trace_lines = True
    sys.settrace(lambda *a: None)


Agent._die_at_next_step = _die_at_next_step

_AGENT = None


def install(**kw):
    global _AGENT
    if _AGENT is not None:
        # reconfigure the already installed hook (hooks cannot be removed)
        _AGENT.enabled = False
    a = Agent(**kw)
    _AGENT = a
    sys.addaudithook(a.hook)
    return a


def install_from_env():
    cfg = json.loads(os.environ.get("XANDIKOS_VERIF_AGENT", "{}"))
    return install(**cfg)
