"""C12  addressbook-query returns exactly the contacts that match the filter."""
import random
import traceback

from vf import common, gen, icl, world as W, davxml as X, cardoracle as O

PROP = "C12"
RULE = ("generated vCards (ASCII and non-ASCII FN/NICKNAME/NOTE/TITLE, several EMAIL/TEL instances with TYPE parameters, grouped properties) in tree-git and bare-git address books; "
        "enumerated filters: every match-type {contains, equals, starts-with, ends-with} x collation {default, i;ascii-casemap, i;unicode-casemap, i;octet} x negate on texts derived "
        "from the stored values (prefix / suffix / infix / whole / case-changed / absent), presence and is-not-defined, param-filter (presence / is-not-defined / text-match), "
        "anyof/allof over 1-3 prop-filters, prop-filter test attribute, limits 0..n+1; judged by vf/cardoracle.py (RFC 6352 10.5); address-data must equal the GET body; any "
        "5xx is a violation; distinct = distinct (feature set, verdict) tuples")

FNS = ["John Doe", "Jörg Müller", "JOHN SMITH", "émile zola", "Émile Durand", "日本 太郎", "Ann O'Neil", "doe", "Дмитрий Иванов", "Zoë", "Işıl Kaya"]
NICKS = ["Johnny", "jö", "太郎", "JD", "Ann", "ſam"]
NOTES = ["likes lunch", "VIP customer", "ünïcode note", "call back", "Lunch buddy", "Straße 5", "ﬁnance ofﬁce"]
# values that are written with escapes in the card, and long enough to be folded
NOTES_ESC = ["Meet at the corner, then left; ring twice", "first line\nsecond line of the note", "Prefers e-mail over the telephone, except on Fridays; see calendar", "back\\slash and, comma"]
# characters outside ASCII whose upper-case form is made of ASCII letters: under i;ascii-casemap (and i;octet) they are
# themselves and nothing else
LOOKALIKES = {"ß": "ss", "ı": "i", "ſ": "s", "ﬁ": "fi"}
EMAILS = ["john@example.com", "JOHN@EXAMPLE.COM", "jörg@exämple.de", "ann@work.example", "info@example.org"]
TELS = ["+1 555 0100", "+31-20-1234567", "555"]


def gen_cards(rng, n):
    out = []
    for i in range(n):
        fn = rng.choice(FNS)
        L = ["BEGIN:VCARD", "VERSION:3.0", "FN:" + gen.esc_text(fn)]
        parts = fn.split(" ")
        L.append("N:" + gen.esc_text(parts[-1]) + ";" + gen.esc_text(parts[0]) + ";;;")
        L.append("UID:c12-%d" % i)
        if rng.random() < 0.5:
            L.append("NICKNAME:" + rng.choice(NICKS))
        if rng.random() < 0.6:
            note = rng.choice(NOTES + NOTES_ESC)
            line = "NOTE:" + gen.esc_text(note)
            if len(line) > 24 and rng.random() < 0.7:
                # a content line may be folded anywhere (RFC 2426 2.6 / RFC 6350 3.2), also in the middle of a word
                # (not between a backslash and the character it escapes)
                cut = [i for i in range(8, len(line) - 3) if line[i - 1] != "\\"]
                p_ = rng.choice(cut)
                line = line[:p_] + "\r\n " + line[p_:]
            L.append(line)
        for _ in range(rng.choice([0, 1, 2, 2])):
            t = rng.choice(["INTERNET", "INTERNET,WORK", "INTERNET,HOME,PREF", "WORK", "HOME"])
            grp = "item%d." % rng.randint(1, 2) if rng.random() < 0.2 else ""
            L.append(f"{grp}EMAIL;TYPE={t}:" + rng.choice(EMAILS))
        for _ in range(rng.choice([0, 1, 2])):
            L.append("TEL;TYPE=%s:%s" % (rng.choice(["CELL", "WORK", "HOME,VOICE"]), rng.choice(TELS)))
        if rng.random() < 0.3:
            L.append("TITLE:" + rng.choice(["Engineer", "Directeur général", "CEO"]))
        L.append("END:VCARD")
        out.append(("k%d.vcf" % i, "card", ("\r\n".join(L) + "\r\n").encode("utf-8")))
    return out


def swapcase_ascii(s):
    return "".join(c.swapcase() if c.isascii() else c for c in s)


def derive_texts(rng, value):
    """texts in a known relation to a stored value"""
    v = value
    n = len(v)
    k = max(1, n // 3)
    cands = [("whole", v), ("prefix", v[:k]), ("suffix", v[-k:]), ("infix", v[1:1 + k] if n > 2 else v), ("whole-casechanged", swapcase_ascii(v)), ("prefix-casechanged", swapcase_ascii(v[:k])),
             ("suffix-casechanged", swapcase_ascii(v[-k:])), ("absent", "zq" + v[:2] + "qz"), ("whole-unicode-casechanged", v.swapcase()), ("longer", v + "x")]
    # white space at the edge of the text is part of the text (PCDATA, RFC 6352 10.5.4)
    words = v.split(" ")
    cands += [("ws-last-word-plus-space", words[-1] + " "), ("ws-space-plus-first-word", " " + words[0]), ("ws-only", " ")]
    if len(words) > 1:
        cands += [("ws-first-word-plus-space", words[0] + " "), ("ws-space-plus-last-word", " " + words[-1])]
    for c, e in LOOKALIKES.items():
        if c in v:
            i = v.index(c)
            cands += [("ascii-lookalike", e), ("ascii-lookalike", e.upper()), ("ascii-lookalike", v.replace(c, e)), ("ascii-lookalike", v.replace(c, e.upper())),
                      ("ascii-lookalike", v[max(0, i - 1):i] + e + v[i + 1:i + 2])] * 2
    return cands


def gen_filter(rng, cards):
    """-> (filter, feature string)"""
    r = rng.random()
    props_pool = ["FN", "NICKNAME", "NOTE", "EMAIL", "TEL", "TITLE", "UID"]

    def values_of(name):
        vs = []
        for (_, _, cal) in cards:
            vs += [p.text for p in cal.props if p.name == name]
        return vs or ["none"]

    def one_prop_filter():
        name = rng.choice(props_pool)
        spell = name if rng.random() < 0.8 else name.lower()
        k = rng.random()
        if k < 0.1:
            return {"name": spell}, "presence"
        if k < 0.2:
            return {"name": spell, "is_not_defined": True}, "is-not-defined"
        if k < 0.4 and name in ("EMAIL", "TEL"):
            pn = "TYPE" if rng.random() < 0.85 else "type"
            kk = rng.random()
            if kk < 0.3:
                return {"name": spell, "params": [{"name": pn}]}, "param-presence"
            if kk < 0.5:
                return {"name": spell, "params": [{"name": rng.choice([pn, "X-NONE"]), "is_not_defined": True}]}, "param-is-not-defined"
            mt = rng.choice(["contains", "equals", "starts-with", "ends-with", None])
            return {"name": spell, "params": [{"name": pn, "text_match": {"text": rng.choice(["WORK", "work", "PREF", "INTER", "CELL", "VOICE", "zz"]), "match_type": mt}}]}, "param-text-match/" + (mt or "default")
        v = rng.choice(values_of(name))
        rel, text = rng.choice(derive_texts(rng, v))
        if not text:
            text = "a"
        mt = rng.choice(["contains", "equals", "starts-with", "ends-with", None])
        col = rng.choice([None, "i;ascii-casemap", "i;unicode-casemap", "i;octet"])
        if rel == "ascii-lookalike" and rng.random() < 0.6:
            col = "i;ascii-casemap"
        neg = rng.random() < 0.2
        nonascii = not (text.isascii() and v.isascii())
        if rel == "whole-unicode-casechanged" and (text == swapcase_ascii(v)):
            rel = "whole-casechanged"
        feat = "text-match/%s/%s%s%s" % (mt or "default-contains", col or "default-collation", "/negate" if neg else "", "/nonascii" if nonascii else "")
        if rel.endswith("unicode-casechanged") and nonascii:
            feat += "/nonascii-case-differs"
        if rel.startswith("ws-"):
            feat += "/text-with-edge-whitespace"
        if rel == "ascii-lookalike":
            feat += "/ascii-text-for-a-non-ascii-lookalike"
        return {"name": spell, "text_matches": [{"text": text, "match_type": mt, "collation": col, "negate": neg}]}, feat
    if r < 0.05:
        return {"props": []}, "empty-filter"
    n = 1 if r < 0.75 else rng.randint(2, 3)
    pfs, feats = [], []
    for _ in range(n):
        pf, ft = one_prop_filter()
        pfs.append(pf)
        feats.append(ft)
    flt = {"props": pfs}
    if n > 1:
        flt["test"] = rng.choice(["anyof", "allof", None])
        feats.append("combine-" + (flt["test"] or "default-anyof"))
    elif rng.random() < 0.2:
        flt["test"] = rng.choice(["anyof", "allof"])
    if n == 1 and rng.random() < 0.15:
        # value condition and parameter condition in one prop-filter on a property that occurs
        # several times: both must hold for the *same* instance (allof) / either (anyof)
        name = rng.choice(["EMAIL", "TEL"])
        vals = values_of(name)
        v = rng.choice(vals)
        k = max(2, len(v) // 3)
        tm = {"text": rng.choice([v[:k], v[-k:], v]), "match_type": rng.choice(["contains", "starts-with", "ends-with", None]), "collation": None, "negate": False}
        ptext = rng.choice(["WORK", "HOME", "INTERNET", "CELL", "PREF", "VOICE"])
        t = rng.choice(["allof", "allof", "anyof", None])
        flt = {"props": [{"name": name, "test": t, "text_matches": [tm], "params": [{"name": "TYPE", "text_match": {"text": ptext, "match_type": rng.choice(["equals", "contains"])}}]}]}
        return flt, "prop-filter-value-and-param-condition/" + (t or "default-anyof")
    if n == 1 and rng.random() < 0.12 and pfs[0].get("text_matches"):
        # two tests inside one prop-filter: the prop-filter's own test attribute matters
        pf2, ft2 = one_prop_filter()
        if pf2.get("text_matches"):
            pfs[0]["text_matches"].append(pf2["text_matches"][0])
            pfs[0]["test"] = rng.choice(["anyof", "allof", None])
            feats = ["prop-filter-with-two-text-matches/" + (pfs[0]["test"] or "default-anyof")]
    return flt, "+".join(sorted(set(feats)))


class Runner:
    def __init__(self, w, res, rng, cfg):
        self.w, self.res, self.rng, self.cfg = w, res, rng, cfg

    def viol(self, sig, msg, extra=None):
        self.res.violation(sig, msg, {"config": self.cfg, "detail": extra})

    def query(self, colpath, flt, limit=None):
        w = self.w
        s, r = w.report(colpath, X.addressbook_query(O.render(flt), data=True, limit=limit), record=False)
        if r.status != 207:
            return None, s, r, 0
        try:
            rs, _ = X.parse_multistatus(r.body)
        except X.MalformedXML:
            return None, s, r, 0
        got = {}
        extra = 0
        for resp in rs:
            nm = w.rel_name(resp.href or "", colpath)
            if nm:
                got[nm] = resp
            else:
                extra += 1
        return got, s, r, len(rs)


def run_concurrent(args):
    """several clients send addressbook-queries with different filters at the same time (real CLI server / WSGI application
    in a threaded container): every answer is judged against its own filter"""
    import threading
    import time
    from vf import fe as FE
    res = common.Result()
    rng = random.Random(args["seed"])
    base = common.mkscratch("c12c")
    if args["fe"] == "aio":
        w = W.World(base, fe_kind="aio", prefix="/", seed=args["seed"])
    else:
        w = W.World(base, fe_kind="wsgihost", prefix="/", seed=args["seed"], server_env={"VF_THREADS": "1"})
    w.res = res
    try:
        O.selftest()
        w.start()
        colpath = "/user/contacts/abc/"
        w.mkcol(colpath, "addressbook")
        cards = []
        for name, label, body in gen_cards(rng, 30):
            s, r = w.call("put", "PUT", w.url(colpath, name), [("Content-Type", "text/vcard")], body, record=False)
            if W.World.success(s.eff):
                st, et, served, _ = w.fetch(colpath, name)
                cards.append((name, served, icl.parse_vcard(served)))
        fams = []
        tries = 0
        while len(fams) < 4 and tries < 400:
            tries += 1
            flt, feat = gen_filter(rng, cards)
            try:
                exp = {nm for (nm, _, card) in cards if O.matches(flt, card)}
            except O.Undefined:
                continue
            if 0 < len(exp) < len(cards) and all(exp != f[2] for f in fams):
                fams.append((O.render(flt), feat, exp))
        if len(fams) < 2:
            res.inconclusive.append("could not find two filters with distinct answers")
            return res
        stop = threading.Event()
        bad = []
        counts = {"q": 0}

        def client(i):
            r = random.Random(args["seed"] + i)
            while not stop.is_set():
                fx, feat, exp = fams[(i + (0 if r.random() < 0.7 else 1)) % len(fams)]
                resp = FE.raw_http(w.fe.addr, "REPORT", w.url(colpath), [("Depth", "1"), X.XML_CT], X.addressbook_query(fx, data=True), timeout=30, half_close=(args["fe"] != "aio"))
                if resp.status != 207:
                    bad.append((feat, "status-%s" % resp.status, None))
                    continue
                try:
                    rs, _ = X.parse_multistatus(resp.body)
                except X.MalformedXML:
                    bad.append((feat, "ill-formed", None))
                    continue
                got = {w.rel_name(x.href or "", colpath) for x in rs} - {None, ""}
                counts["q"] += 1
                if got != exp:
                    bad.append((feat, "differs", sorted(got ^ exp)[:5]))
        ts = [threading.Thread(target=client, args=(i,)) for i in range(3)]
        for t in ts:
            t.start()
        common.run_for(args["seconds"], lambda: counts["q"] >= 8 * args["seconds"])
        stop.set()
        for t in ts:
            t.join()
        res.evaluations += counts["q"]
        res.count("concurrent_queries_judged", counts["q"])
        res.seen("concurrent", args["fe"], len(fams), counts["q"] // 50)
        for feat, what, names in bad[:20]:
            res.violation(f"concurrent-queries/{args['fe']}/{what}", f"addressbook-query [{feat}] sent while other clients sent other filters: answer {what} {names or ''}", {"config": dict(args)})
    except Exception:
        res.inconclusive.append("harness exception: " + traceback.format_exc()[-1500:])
    finally:
        w.stop()
        common.rmtree(base)
    return res


def run_shard(args):
    if args.get("mode") == "concurrent":
        return run_concurrent(args)
    res = common.Result()
    rng = random.Random(args["seed"])
    try:
        O.selftest()
    except Exception:
        res.inconclusive.append("oracle self-test failed (framework error): " + traceback.format_exc()[-800:])
        return res
    base = common.mkscratch("c12")
    w = W.World(base, fe_kind=args["fe"], prefix=args.get("prefix", "/"), seed=args["seed"])
    w.res = res
    try:
        w.start()
        w.stop()
        w.provision_bare("/user/contacts/bareab/", "addressbook", meta="gitconfig")
        w.start()
        w.mkcol("/user/contacts/ab0/", "addressbook")
        cfg = dict(args)
        run = Runner(w, res, rng, cfg)
        for colpath in ("/user/contacts/ab0/", "/user/contacts/bareab/"):
            cards = []
            for name, label, body in gen_cards(rng, args["cards"]):
                s, r = w.call("put", "PUT", w.url(colpath, name), [("Content-Type", "text/vcard")], body, record=False)
                if not W.World.success(s.eff):
                    res.count("upload_refused")
                    continue
                st, et, served, _ = w.fetch(colpath, name)
                if b"\r\n " in (served or b""):
                    res.count("cards_served_with_a_folded_line")
                if any(e in (served or b"") for e in (b"\\,", b"\\;", b"\\n")) and b"NOTE:" in (served or b""):
                    res.count("cards_served_with_an_escaped_character_in_a_value")
                cards.append((name, served, icl.parse_vcard(served)))
            res.count("cards_uploaded", len(cards))
            for i in range(args["filters"]):
                if i in (args["filters"] // 3, 2 * args["filters"] // 3) and cards:
                    # the address book changes between the queries: some cards are overwritten, some deleted and made again
                    # under the same name; the answers that follow are owed to the cards as they are now
                    fresh = gen_cards(rng, len(cards))
                    for j in rng.sample(range(len(cards)), max(1, len(cards) // 3)):
                        nm = cards[j][0]
                        nb = fresh[j][2].replace(b"UID:c12-%d\r\n" % j, b"UID:c12-%d\r\n" % int(nm[1:-4]))
                        if rng.random() < 0.4:
                            w.call("delete", "DELETE", w.url(colpath, nm), [], None, record=False)
                        s_, r_ = w.call("put", "PUT", w.url(colpath, nm), [("Content-Type", "text/vcard")], nb, record=False)
                        if not W.World.success(s_.eff):
                            res.count("rewrite_refused")
                        st, et, served, _ = w.fetch(colpath, nm)
                        if st == 200:
                            cards[j] = (nm, served, icl.parse_vcard(served))
                            res.count("cards_rewritten_between_queries")
                        else:
                            res.inconclusive.append("card %s unreadable after a rewrite: %s" % (nm, st))
                flt, feat = gen_filter(rng, cards)
                expect = {}
                for (nm, served, card) in cards:
                    try:
                        expect[nm] = O.matches(flt, card)
                    except O.Undefined:
                        expect[nm] = None
                limit = None
                if rng.random() < 0.2:
                    limit = rng.choice([0, 1, 2, 3, len(cards), len(cards) + 1])
                got, s, r, nresp = run.query(colpath, flt, limit)
                res.evaluations += 1
                res.count("queries")
                res.seen(feat, limit is not None)
                res.count("feature:" + feat.split("/")[0])
                if "text-with-edge-whitespace" in feat:
                    res.count("feature:edge-whitespace-text")
                if "ascii-text-for-a-non-ascii-lookalike" in feat and "i;ascii-casemap" in feat:
                    res.count("feature:ascii-casemap-lookalike")
                if got is None:
                    cause = ""
                    import re
                    m = re.findall(rb"(\w+Error)", r.body or b"")
                    cause = m[-1].decode() if m else ""
                    run.viol(f"query-answers-{s.status}/{feat}", f"addressbook-query [{feat}] answered {s.status} {cause}", {"filter": O.render(flt), "tail": (r.body or b"")[-300:].decode("utf-8", "replace")})
                    continue
                if limit is not None:
                    res.count("limited_queries")
                    if nresp > limit:
                        run.viol("limit/more-than-nresults-responses", f"addressbook-query with nresults={limit} returned {nresp} responses")
                    for nm in got:
                        if expect.get(nm) is False:
                            run.viol(f"limit/non-matching-card-returned/{feat}", f"limited query returned {nm} which does not match")
                    if limit >= sum(1 for v in expect.values() if v or v is None) + 1:   # (cards the oracle leaves undefined may match)
                        limit = None  # every matching card fits: judge completeness too
                for nm, e in expect.items():
                    if e is None:
                        continue
                    res.count("judgements")
                    res.count("expected_match" if e else "expected_nomatch")
                    g = nm in got
                    if g and e:
                        data = got[nm].prop_text(X.P_ADDRDATA)
                        want = dict((c[0], c[1]) for c in cards)[nm].decode("utf-8", "replace").replace("\r\n", "\n")
                        res.count("address_data_compared")
                        if data is None or data.replace("\r\n", "\n").rstrip("\n") != want.rstrip("\n"):
                            run.viol("address-data-differs-from-stored-card", f"address-data of {nm} differs from GET", {"data": (data or "")[:400], "get": want[:400]})
                    if limit is not None:
                        continue
                    if g != e:
                        kind = "missing" if e else "spurious"
                        body = dict((c[0], c[1]) for c in cards)[nm].decode("utf-8", "replace")
                        run.viol(f"filter/{feat}/{kind}", f"addressbook-query [{feat}]: card {nm} is {'not returned but matches' if e else 'returned but does not match'} under RFC 6352",
                                 {"filter": O.render(flt), "card": body})
            res.sample({"config": cfg, "example_filter": O.render(gen_filter(rng, cards)[0])}, cap=2)
    except Exception:
        res.inconclusive.append("harness exception: " + traceback.format_exc()[-1500:])
    finally:
        w.stop()
        common.rmtree(base)
    return res


def check(tier, seed, t0):
    th = tier == "thorough"
    shards = []
    for i in range(12 if not th else 16):
        shards.append({"fe": ["wsgi", "aio"][i % 2], "prefix": "/" if (i // 2) % 2 == 0 else "/dav/", "seed": seed * 100 + i, "cards": 20, "filters": 150 if not th else 1500})
    for i in range(2 if not th else 6):
        shards.append({"mode": "concurrent", "fe": ["aio", "wsgi-threads"][i % 2], "seed": seed * 100 + 70 + i, "seconds": 5 if not th else 25})
    results, failures = common.run_shards("vf.props.c12", shards, timeout_s=300 if not th else 2400)
    merged = common.merge(results)
    c = merged["counters"]
    k = 1 if not th else 10
    guards = [("queries", c.get("queries", 0), 3000 * k), ("(card, query) judgements", c.get("judgements", 0), 40000 * k), ("expected matches", c.get("expected_match", 0), 5000 * k),
              ("expected non-matches", c.get("expected_nomatch", 0), 5000 * k), ("address-data comparisons", c.get("address_data_compared", 0), 3000 * k), ("limited queries", c.get("limited_queries", 0), 300 * k),
              ("answers of concurrent clients sending different filters", c.get("concurrent_queries_judged", 0), 60 * (1 if not th else 6))]
    guards += [("cards overwritten / deleted and re-created between queries", c.get("cards_rewritten_between_queries", 0), 100)]
    guards += [("cards with a folded content line", c.get("cards_served_with_a_folded_line", 0), 20), ("cards with an escaped character in a value", c.get("cards_served_with_an_escaped_character_in_a_value", 0), 20)]
    for f in ("text-match", "presence", "is-not-defined", "param-presence", "param-is-not-defined", "param-text-match", "empty-filter", "edge-whitespace-text", "ascii-casemap-lookalike"):
        guards.append(("feature " + f, c.get("feature:" + f, 0), 10))
    return common.finish(PROP, tier, seed, "exploration", merged, failures, RULE, t0, guards=guards,
                         assumptions=["vf/cardoracle.py implements RFC 6352 10.5 (self-tested)", "only unstructured text properties are used in text-match cases", "i;unicode-casemap is modelled by str.casefold() on cases where simple case mapping applies"])


def replay(path):
    import json
    rp = json.load(open(path))
    cfg = rp["witness"]["config"]
    res = run_shard(dict(cfg))
    for v in res.violations:
        print("VIOLATION property=%s replay=%s" % (PROP, path))
        print("  sig=%s :: %s" % (v["sig"], v["msg"][:300]))
    return 1 if res.violations else 0


# (what later rounds of seeded changes added to the workload; part of the evidence's description of the check)
RULE += "; " + 'values written with escapes and folded lines, characters whose upper-case form is ASCII searched by their ASCII look-alikes under i;ascii-casemap, a third of the cards rewritten twice during every series of queries'
