"""C01  Collection contents always equal the outcome of the acknowledged writes."""
import time

from vf import common, histrun, icl, world as W

PROP = "C01"
RULE = ("random request histories (PUT new/same/re-serialised/changed/reverted/invalid/conditional, POST, DELETE, MKCOL/MKCALENDAR, PROPPATCH, reads, "
        "REPORTs, restarts) on {wsgi callable, real CLI over raw sockets} x {/, /dav/} x {tree-git via MKCOL, pre-provisioned bare-git} plus Store-API "
        "histories on vdir / bare-git memory+disk / tree-git; after every step the touched collection (every 5th step: all) is audited "
        "(PROPFIND Depth 1 + GET of every member and of names that must be 404) against a response-driven dict model; "
        "distinct = distinct (op kind, effective status, front end, backend, member-state-before) tuples that reached the audit")


def name_class(name):
    if any(ord(c) > 127 for c in name):
        return "nonascii-name"
    if name in (".xandikos", ".git", ".gitignore", ".xandikos.tmp"):
        return "reserved-name"
    if name.startswith("."):
        return "dot-name"
    if any(c in name for c in "%+&=@,'()~!$[] "):
        return "urlspecial-name"
    return "plain-name"


class C01Monitor(histrun.Monitor):
    def __init__(self, res, cfg):
        super().__init__(res, cfg)
        self.last = None

    def on_step(self, w, s, r):
        self.last = s
        if r is not None and s.status == 500:
            self.res.count("http500")
            self.res.count("http500:" + s.op.split(":")[0])
        if r is not None and s.broken:
            self.res.count("broken:" + str(s.broken))

    def where(self, w, col):
        return "%s/%s" % (w.fe_kind if w.fe_kind != "wsgihost" else "wsgi", col.backend)

    def on_audit(self, w, obs, full):
        res = self.res
        last = self.last
        after = "after-%s" % ("success" if last is not None and (W.World.success(last.eff) or last.op == "restart") else "nonsuccess") if last is not None else "initial"
        lastop = last.op.split(":")[0] if last is not None else "-"
        for p, o in obs.items():
            col = w.cols.get(p)
            if col is None:
                continue
            wh = self.where(w, col)
            res.count("audits")
            if o["listing_status"] != 207:
                self.viol(w, f"{wh}/listing/collection-unlistable", f"PROPFIND Depth 1 of live collection {p} answered {o['listing_status']} ({after}, last op {lastop})")
                continue
            for pr in o["problems"]:
                self.viol(w, f"{wh}/listing/malformed", f"{p}: {pr}")
            listed = o.get("listed", {})
            model_names = set(col.members)
            for nm in sorted(set(listed) - model_names):
                self.viol(w, f"{wh}/listing/ghost-member/{name_class(nm)}", f"{p} lists {nm!r} which the model does not have ({after}, last op {lastop}); model has {sorted(model_names)!r}")
            for nm in sorted(model_names - set(listed)):
                self.viol(w, f"{wh}/listing/missing-member/{name_class(nm)}", f"{p} does not list live member {nm!r} ({after}, last op {lastop}); listed {sorted(listed)!r}")
            rt = o.get("rt") or []
            is_cal = "{urn:ietf:params:xml:ns:caldav}calendar" in rt
            is_ab = "{urn:ietf:params:xml:ns:carddav}addressbook" in rt
            res.count("collection_type_checks")
            # a collection made by plain MKCOL has no stored type: xandikos guesses one from its members by
            # design, so only explicitly typed collections are judged
            if col.kind in ("calendar", "addressbook") and ((col.kind == "calendar") != is_cal or (col.kind == "addressbook") != is_ab):
                self.viol(w, f"{wh}/collection-type-changed/{lastop}", f"{p} was created as {col.kind} but PROPFIND now reports resourcetype {rt!r} ({after}, last op {lastop})")
            exp_sub = sorted(x[len(p):] for x in col.subcols)
            got_sub = sorted(o["subcols"])
            if exp_sub != got_sub:
                self.viol(w, f"{wh}/listing/subcollections", f"{p} lists sub-collections {got_sub!r}, model has {exp_sub!r} ({after}, last op {lastop})")
            for nm, mo in o["members"].items():
                mem = col.members.get(nm)
                res.count("member_gets")
                if mem is None:
                    if nm in col.graves:
                        res.count("absent_probes")
                        if mo["status"] != 404:
                            self.viol(w, f"{wh}/get/absent-member-answers-{mo['status']}/{name_class(nm)}", f"GET {p}{nm!r} (deleted or never created) answers {mo['status']}, expected 404 ({after}, last op {lastop})")
                        continue
                    if mo["status"] == 200:
                        self.viol(w, f"{wh}/get/ghost-content/{name_class(nm)}", f"GET {p}{nm!r} answers 200 but the model has no such member ({after}, last op {lastop})")
                    continue
                if mo["status"] != 200:
                    self.viol(w, f"{wh}/get/live-member-not-served/{name_class(nm)}", f"GET of live member {p}{nm!r} answers {mo['status']} ({after}, last op {lastop})")
                    continue
                self.compare(w, col, mem, mo, after, lastop, wh)
            # a sample of names that must not exist
            res.seen(lastop, last.eff if last is not None else None, wh, len(col.members))

    def compare(self, w, col, mem, mo, after, lastop, wh):
        body = mo["body"]
        if mem.ctype == "text/calendar" and col.kind in ("calendar", "plain"):
            try:
                want = icl.canon_bytes(mem.uploaded)
            except icl.ICLError:
                want = None
            if want is not None:
                try:
                    got = icl.canon_bytes(body)
                except icl.ICLError as e:
                    self.viol(w, f"{wh}/content/served-ical-unparseable", f"GET {col.path}{mem.name!r}: served body does not parse: {e}")
                    return
                self.res.count("ical_compared")
                if got != want:
                    tokens = self.identify(w, col, body)
                    self.viol(w, f"{wh}/content/ical-differs/{after}", f"GET {col.path}{mem.name!r} serves different content than the last successful write (token {mem.token}); served content carries token(s) {tokens} (last op {lastop})",
                              {"uploaded": mem.uploaded.decode("utf-8", "replace")[:1500], "served": body.decode("utf-8", "replace")[:1500]})
                return
        self.res.count("bytes_compared")
        if body != mem.uploaded:
            self.viol(w, f"{wh}/content/bytes-differ/{after}", f"GET {col.path}{mem.name!r} serves {len(body)} bytes != last successful write of {len(mem.uploaded)} bytes (token {mem.token}; last op {lastop})",
                      {"uploaded": repr(mem.uploaded[:600]), "served": repr(body[:600])})

    def identify(self, w, col, body):
        import re
        return sorted(set(re.findall(rb"vf\d+x\d+z", body)))[:4]


def run_shard(args):
    res = common.Result()
    if args.get("mode") == "store":
        from vf import storedrv
        return storedrv.run_c01(args, res)
    return histrun.run_history(args, [C01Monitor], res, weights={"locked_writes": 1.0, "control_dir": 2.0, "delete_col": 1.6, "mkcol_new": 2.0, "put_missing_col": 1.2})


def plan(tier, seed):
    shards = []
    if tier == "quick":
        steps, hist = 120, 1
    else:
        steps, hist = 150, 8
    cfgs = [("wsgi", "/"), ("aio", "/"), ("wsgi", "/dav/"), ("aio", "/dav/")]
    n = 12 if tier == "quick" else 14
    for i in range(n):
        fe, prefix = cfgs[i % 4]
        if tier == "thorough" and i >= 12:
            fe = "wsgihost"   # the same application behind a real wsgiref server
        shards.append({"fe": fe, "prefix": prefix, "seed": seed * 100 + i, "steps": steps, "histories": hist, "bare": True, "budget_s": 100 if tier == "quick" else 900})
    for i, backend in enumerate(["vdir", "bare-mem", "bare-disk", "tree"]):
        shards.append({"mode": "store", "backend": backend, "seed": seed * 100 + 50 + i, "steps": 150 if tier == "quick" else 1500, "histories": 2 if tier == "quick" else 6})
    return shards


def check(tier, seed, t0):
    shards = plan(tier, seed)
    results, failures = common.run_shards("vf.props.c01", shards, timeout_s=240 if tier == "quick" else 2400)
    merged = common.merge(results)
    c = merged["counters"]
    writes = sum(v for k, v in c.items() if k.startswith("op:put") or k.startswith("op:post") or k.startswith("op:delete") or k.startswith("op:mk"))
    guards = [
        ("audits", c.get("audits", 0), 500 if tier == "quick" else 5000),
        ("member GETs compared", c.get("ical_compared", 0) + c.get("bytes_compared", 0), 1000 if tier == "quick" else 10000),
        ("write ops", writes, 300 if tier == "quick" else 3000),
        ("restarts", c.get("restarts", 0), 3),
        ("404 probes of deleted/refused names", c.get("absent_probes", 0), 100),
        ("store-API steps", c.get("store_steps", 0), 400 if tier == "quick" else 4000),
    ]
    for k in ("put_new", "put_same", "put_change", "put_revert", "put_invalid", "put_cond", "post", "delete", "mkcol_new", "delete_col", "proppatch", "read"):
        guards.append(("op " + k, c.get("op:" + k, 0), 1))
    return common.finish(PROP, tier, seed, "exploration", merged, failures, RULE, t0, guards=guards,
                         assumptions=["wsgiref's environ construction is representative of WSGI servers", "process restart = new process (aio) / module reload + cache clear (wsgi)",
                                      "iCalendar equality = equality of canonical property multisets per component (vf/icl.py)"])


def replay(path):
    import json
    with open(path) as f:
        rp = json.load(f)
    cfg = rp["witness"]["config"]
    print("replaying history seed", cfg)
    res = common.Result()
    args = {"fe": cfg["fe"], "prefix": cfg["prefix"], "seed": cfg["seed"] // 1000, "steps": cfg["steps"], "histories": cfg["seed"] % 1000 + 1, "bare": cfg.get("bare", True)}
    import os, sys
    sys.path.insert(0, common.REPO)
    os.environ.update({k: v for k, v in common.worker_env().items() if k in ("PYTHONPATH", "TZ", "GIT_CONFIG_NOSYSTEM")})
    histrun.run_history(args, [C01Monitor], res)
    for v in res.violations:
        print("VIOLATION property=%s replay=%s" % (PROP, path))
        print("  sig=%s :: %s" % (v["sig"], v["msg"][:300]))
    return 1 if res.violations else 0
