"""C18  Service discovery leads to the user's collections in every deployment layout."""
import itertools
import os
import random
import traceback
import urllib.parse

from vf import common, gen, world as W, davxml as X
from vf.props.c16 import resolve

PROP = "C18"
RULE = ("enumerated deployments: route prefix {/, /dav/, /a/b/} x principal {/user/, /user, /users/alice/, /p/q/r} x {--defaults, --autocreate, no flag on a pre-existing tree} x "
        "front end {real CLI, xandikos.wsgi behind WellknownRedirector on wsgiref} x restarts {0, 1, 3}; a client walks: <prefix> and /.well-known/{caldav,carddav} (following the "
        "redirect) -> current-user-principal -> principal (resourcetype principal) -> calendar-home-set / addressbook-home-set -> Depth 1, using only hrefs the server returned "
        "(resolved per RFC 3986); it must reach a calendar and an address book (defaults) or the home sets and the collections the user created earlier (autocreate), each "
        "with the right resourcetype; between restarts user data is written (PUT, PROPPATCH, MKCALENDAR, DELETE of a default collection's member) and after each restart "
        "every collection, member body and property must be as before; distinct = distinct (configuration, life number, outcome)")

PREFIXES = ["/", "/dav/", "/a/b/"]
PRINCIPALS = ["/user/", "/user", "/users/alice/", "/p/q/r", "/alice@example.com/", "/jo+cal é/"]
MODES = ["defaults", "autocreate", "none"]
FES = ["aio", "wsgihost"]
RESTARTS = [0, 1, 3]

CAL_RT = "{urn:ietf:params:xml:ns:caldav}calendar"
AB_RT = "{urn:ietf:params:xml:ns:carddav}addressbook"


class Walker:
    def __init__(self, w, res, cfg):
        self.w, self.res, self.cfg = w, res, cfg
        self.log = []

    def viol(self, sig, msg, extra=None):
        self.res.violation(sig, msg, {"config": self.cfg, "detail": extra, "requests": self.log[-10:]})

    def req(self, method, target, headers=(), body=None):
        s, r = self.w.call("c18", method, target, list(headers), body, record=False)
        self.log.append({"method": method, "target": target, "status": s.status, "location": r.header("Location")})
        del self.log[:-40]
        return s, r

    def propfind(self, target, props, depth="0"):
        s, r = self.req("PROPFIND", target, [("Depth", depth), X.XML_CT], X.propfind(props))
        if r.status != 207:
            return None, s
        try:
            rs, _ = X.parse_multistatus(r.body)
        except X.MalformedXML:
            return None, s
        return rs, s

    def sigbase(self):
        c = self.cfg
        return f"{c['fe']}/{c['mode']}"

    def shape(self):
        c = self.cfg
        return f"prefix={c['prefix']} principal={c['principal']}"

    def discover(self, start, life):
        """-> dict(principal, calhome, abhome, calendars{href: rt}, addressbooks) or None"""
        sb = self.sigbase()
        rs, s = self.propfind(start, [X.P_CUP, X.P_RESOURCETYPE])
        if rs is None or not rs:
            self.viol(f"{sb}/root-propfind-failed", f"[{self.shape()} life {life}] PROPFIND {start} -> {s.status}")
            return None
        hs = X.prop_hrefs(rs[0], X.P_CUP)
        if not hs:
            self.viol(f"{sb}/no-current-user-principal", f"[{self.shape()} life {life}] {start}: no current-user-principal href")
            return None
        pt = resolve(start, hs[0])
        if pt is None:
            self.viol(f"{sb}/current-user-principal-unresolvable", f"[{self.shape()}] {hs[0]!r}")
            return None
        rs, s = self.propfind(pt, [X.P_RESOURCETYPE, X.P_CALHOME, X.P_ABHOME, X.P_CUP, "{DAV:}principal-URL"])
        if rs is None or len(rs) != 1 or rs[0].status == 404:
            self.viol(f"{sb}/principal-not-found", f"[{self.shape()} life {life}] current-user-principal {hs[0]!r} -> PROPFIND {pt} -> {s.status}")
            return None
        rt = X.resourcetypes(rs[0]) or []
        if "{DAV:}principal" not in rt:
            self.viol(f"{sb}/principal-without-principal-resourcetype", f"[{self.shape()} life {life}] {pt}: resourcetype {rt!r}")
        out = {"principal": pt, "calendars": {}, "addressbooks": {}, "homes": {}}
        for prop, key, want in ((X.P_CALHOME, "calendars", CAL_RT), (X.P_ABHOME, "addressbooks", AB_RT)):
            hh = X.prop_hrefs(rs[0], prop)
            if not hh:
                self.viol(f"{sb}/no-home-set/{key}", f"[{self.shape()} life {life}] principal {pt}: no {prop}")
                continue
            for h in hh:
                ht = resolve(pt, h)
                if ht is None:
                    self.viol(f"{sb}/home-set-unresolvable/{key}", f"[{self.shape()}] {h!r}")
                    continue
                rs2, s2 = self.propfind(ht, [X.P_RESOURCETYPE, X.P_DISPLAYNAME], depth="1")
                if rs2 is None or (rs2 and rs2[0].status == 404):
                    self.viol(f"{sb}/home-set-not-found/{key}", f"[{self.shape()} life {life}] {prop} {h!r} -> PROPFIND {ht} -> {s2.status}")
                    continue
                out["homes"][key] = ht
                for resp in rs2:
                    t = resolve(ht, resp.href or "")
                    rt2 = X.resourcetypes(resp) or []
                    if t is None or t.rstrip("/") == ht.rstrip("/"):
                        if "{DAV:}collection" not in rt2:
                            self.viol(f"{sb}/home-set-not-a-collection/{key}", f"[{self.shape()}] {ht}: {rt2!r}")
                        self.res.count("home_set_type_checks")
                        if CAL_RT in rt2 or AB_RT in rt2:
                            # a client would take the home set itself for a calendar / an address book
                            self.viol(f"{sb}/home-set-listed-as-calendar-or-addressbook/{key}", f"[{self.shape()} life {life}] the home set {ht} is listed with resourcetype {rt2!r}")
                        continue
                    if CAL_RT in rt2 and AB_RT in rt2:
                        self.viol(f"{sb}/collection-listed-as-both-calendar-and-addressbook/{key}", f"[{self.shape()} life {life}] {t}: resourcetype {rt2!r}")
                    if want in rt2:
                        out[key][t] = {"rt": rt2, "displayname": resp.prop_text(X.P_DISPLAYNAME)}
        return out

    def wellknown(self, life):
        sb = self.sigbase()
        for svc in ("caldav", "carddav"):
            t = "/.well-known/" + svc
            for method in ("GET", "PROPFIND"):
                hs = [("Depth", "0"), X.XML_CT] if method == "PROPFIND" else []
                s, r = self.req(method, t, hs, X.propfind([X.P_CUP]) if method == "PROPFIND" else None)
                self.res.count("wellknown_requests")
                if s.status not in (301, 302, 303, 307, 308):
                    self.viol(f"{sb}/well-known-not-redirected/{method}", f"[{self.shape()} life {life}] {method} {t} -> {s.status}")
                    continue
                loc = r.header("Location")
                nt = resolve(t, loc or "")
                if nt is None:
                    self.viol(f"{sb}/well-known-location-unresolvable", f"[{self.shape()}] Location {loc!r}")
                    continue
                d = self.discover(nt, life)
                if d is None:
                    self.viol(f"{sb}/well-known-target-is-not-a-discovery-root/{svc}", f"[{self.shape()} life {life}] {t} -> {loc!r}: discovery from there failed")
                else:
                    self.res.count("wellknown_walks_ok")

    def snapshot(self, d):
        """contents of everything discovered"""
        snap = {}
        for key in ("calendars", "addressbooks"):
            for t, info in d[key].items():
                rs, s = self.propfind(t, [X.P_ETAG, X.P_RESOURCETYPE], depth="1")
                members = {}
                for resp in (rs or [])[0:]:
                    mt = resolve(t, resp.href or "")
                    if mt is None or mt.rstrip("/") == t.rstrip("/"):
                        continue
                    s2, r2 = self.req("GET", mt)
                    if s2.status == 200:
                        members[mt] = r2.body
                rs3, _ = self.propfind(t, [X.P_DISPLAYNAME, X.P_CALCOLOR, X.P_ABDESC])
                props = {p: rs3[0].prop_text(p) for p in (X.P_DISPLAYNAME, X.P_CALCOLOR, X.P_ABDESC)} if rs3 else {}
                snap[t] = {"kind": key, "rt": info["rt"], "members": members, "props": props}
        return snap

    def compare(self, before, after, life):
        sb = self.sigbase()
        for t, b in before.items():
            a = after.get(t)
            self.res.count("collections_compared")
            if a is None:
                self.viol(f"{sb}/collection-lost-after-restart/{b['kind']}", f"[{self.shape()} life {life}] collection {t} was discoverable before the restart, not after")
                continue
            if a["rt"] != b["rt"]:
                self.viol(f"{sb}/resourcetype-changed-after-restart", f"[{self.shape()} life {life}] {t}: {b['rt']!r} -> {a['rt']!r}")
            if a["props"] != b["props"]:
                self.viol(f"{sb}/property-changed-after-restart", f"[{self.shape()} life {life}] {t}: {b['props']!r} -> {a['props']!r}")
            if a["members"] != b["members"]:
                lost = sorted(set(b["members"]) - set(a["members"]))
                new = sorted(set(a["members"]) - set(b["members"]))
                self.viol(f"{sb}/members-changed-after-restart", f"[{self.shape()} life {life}] {t}: lost {lost!r}, new {new!r}, changed {[m for m in a['members'] if m in b['members'] and a['members'][m] != b['members'][m]]!r}")
            self.res.count("members_compared", len(b["members"]))
        for t in after:
            if t not in before:
                self.viol(f"{sb}/collection-appeared-after-restart/{after[t]['kind']}", f"[{self.shape()} life {life}] collection {t} appeared by a mere restart")


def run_config(cfg, res):
    rng = random.Random(cfg["seed"])
    base = common.mkscratch("c18")
    mode = cfg["mode"]
    fe_kind = cfg["fe"]
    ac = {"defaults": "defaults", "autocreate": "autocreate", "none": None}[mode]
    try:
        if mode == "none":
            # a tree created by an earlier life with --defaults
            w0 = W.World(base, fe_kind=fe_kind, prefix=cfg["prefix"], principal=cfg["principal"], autocreate="defaults", seed=cfg["seed"])
            w0.start()
            w0.stop()
        w = W.World(base, fe_kind=fe_kind, prefix=cfg["prefix"], principal=cfg["principal"], autocreate=ac, seed=cfg["seed"])
        w.res = res
        try:
            w.start()
        except RuntimeError as e:
            res.violation(f"{fe_kind}/{mode}/server-does-not-start", f"[prefix={cfg['prefix']} principal={cfg['principal']}] first start failed: {str(e)[-600:]}", {"config": cfg})
            return
        wk = Walker(w, res, cfg)
        start = w.prefix
        bare_href_tail = None
        bare_default = None
        if cfg.get("bare_user_col"):
            # user data kept in a bare git repository below the calendar home (the layout of older versions,
            # or a `git clone --bare` into the data directory)
            try:
                w.stop()
                w.provision_bare(cfg["principal"].rstrip("/") + "/calendars/oldbare/", "calendar", meta="gitconfig")
                if mode in ("defaults", "none"):
                    # ... and the default calendar itself is such a repository (data restored from a `git clone --bare` backup
                    # into the place where --defaults puts its calendar); it holds an event
                    import shutil
                    from vf import storedrv
                    dflt = cfg["principal"].rstrip("/") + "/calendars/calendar/"
                    dpath = os.path.join(w.root, dflt.strip("/"))
                    if os.path.isdir(dpath):
                        shutil.rmtree(dpath)
                        w.provision_bare(dflt, "calendar", meta="gitconfig")
                        st = storedrv.open_store("bare", dpath)
                        old_body = gen.ical(rng, "c18-restored", "restoredz", rich=False)
                        st.import_one("restored.ics", "text/calendar", [old_body])
                        del st
                        bare_default = ("/calendar/", "restored.ics", old_body)
                        res.count("configs_with_a_bare_repository_as_default_calendar")
                w.start()
                bare_href_tail = "/oldbare/"
                res.count("configs_with_a_bare_user_collection")
            except Exception as e:  # noqa
                res.inconclusive.append("could not provision the bare collection: %r" % (e,))
        snap = None
        created = []
        deleted_defaults = {}
        for life in range(cfg["restarts"] + 1):
            if life > 0:
                try:
                    w.restart()
                except RuntimeError as e:
                    wk.viol(f"{wk.sigbase()}/server-does-not-start-again", f"[{wk.shape()} life {life}] the server did not come up again on the data it had written itself: {str(e)[-500:]}")
                    return
                res.count("restarts")
            d = wk.discover(start, life)
            res.evaluations += 1
            res.count("walks")
            if d is None:
                res.seen(cfg["fe"], cfg["mode"], cfg["prefix"], cfg["principal"], life, "walk-failed")
                return
            wk.wellknown(life)
            need_defaults = mode in ("defaults", "none")
            if need_defaults:
                if not d["calendars"] and "calendars" not in deleted_defaults.values():
                    wk.viol(f"{wk.sigbase()}/no-calendar-reachable", f"[{wk.shape()} life {life}] discovery reaches no calendar collection; homes {d['homes']!r}")
                if not d["addressbooks"] and "addressbooks" not in deleted_defaults.values():
                    wk.viol(f"{wk.sigbase()}/no-addressbook-reachable", f"[{wk.shape()} life {life}] discovery reaches no address book collection; homes {d['homes']!r}")
            if bare_href_tail and "calendars" in d["homes"]:
                t = d["homes"]["calendars"].rstrip("/") + bare_href_tail
                if t not in created:
                    created.append(t)
            for t in created:
                if t not in d["calendars"] and t not in d["addressbooks"]:
                    wk.viol(f"{wk.sigbase()}/user-created-collection-not-reachable", f"[{wk.shape()} life {life}] {t} (created by the user in an earlier life) is not reached by discovery")
            cur = wk.snapshot(d)
            if bare_default and "calendars" in d["homes"]:
                t = d["homes"]["calendars"].rstrip("/") + bare_default[0]
                res.count("bare_default_calendar_checks")
                if t not in cur:
                    wk.viol(f"{wk.sigbase()}/bare-repository-at-default-path/not-reachable", f"[{wk.shape()} life {life}] the bare repository at the default calendar's place ({t}) is not reached as a calendar")
                elif b"restoredz" not in (cur[t]["members"].get(t + bare_default[1]) or b""):
                    wk.viol(f"{wk.sigbase()}/bare-repository-at-default-path/existing-event-not-served", f"[{wk.shape()} life {life}] {t}{bare_default[1]} (in the repository before the server started) is not served; members {sorted(cur[t]['members'])!r}")
            # a default collection the user deleted in an earlier life may be created afresh by
            # --defaults (it is not existing data); if it is there again it must be of its kind
            for t, key in list(deleted_defaults.items()):
                rsx, sx = wk.propfind(t, [X.P_RESOURCETYPE])
                res.count("deleted_default_probes")
                if rsx and rsx[0].status != 404 and sx.status == 207:
                    res.count("deleted_default_recreated")
                    rtx = X.resourcetypes(rsx[0]) or []
                    if t not in d[key]:
                        wk.viol(f"{wk.sigbase()}/default-collection-recreated-with-wrong-resourcetype/{key}",
                                f"[{wk.shape()} life {life}] the user deleted the default collection {t}; after the restart it exists again with resourcetype {rtx!r}, not a member of {key}")
                    if snap is not None and t in cur:
                        snap[t] = cur[t]
                    del deleted_defaults[t]
            if snap is not None:
                wk.compare(snap, cur, life)
            res.seen(cfg["fe"], cfg["mode"], cfg["prefix"], cfg["principal"], life, len(d["calendars"]), len(d["addressbooks"]))
            res.count("walks_ok")
            # ---- user activity in this life
            if "calendars" in d["homes"]:
                nt = d["homes"]["calendars"].rstrip("/") + "/mycal%d/" % life
                s, r = wk.req("MKCALENDAR", nt, [X.XML_CT], X.mkcalendar([(X.P_DISPLAYNAME, "My Cal %d" % life)]))
                if W.World.success(s.eff if hasattr(s, "eff") else s.status):
                    created.append(nt)
            if "addressbooks" in d["homes"] and life == 0:
                nt = d["homes"]["addressbooks"].rstrip("/") + "/myab/"
                s, r = wk.req("MKCOL", nt, [X.XML_CT], X.mkcol_ext("addressbook", [(X.P_DISPLAYNAME, "My AB")]))
                if W.World.success(s.status):
                    created.append(nt)
            if "addressbooks" in d["homes"] and life == 0 and cfg.get("retype", True):
                # a collection that is listed, deleted and made again at the same URL with another type
                nt = d["homes"]["addressbooks"].rstrip("/") + "/swap/"
                s, r = wk.req("MKCALENDAR", nt, [X.XML_CT], X.mkcalendar([(X.P_DISPLAYNAME, "first a calendar")]))
                if W.World.success(s.status):
                    wk.discover(start, life)
                    wk.req("PROPFIND", nt, [("Depth", "0"), X.XML_CT], X.propfind([X.P_RESOURCETYPE]))
                    s, r = wk.req("DELETE", nt)
                    if W.World.success(s.status):
                        s, r = wk.req("MKCOL", nt, [X.XML_CT], X.mkcol_ext("addressbook", [(X.P_DISPLAYNAME, "now an address book")]))
                        if W.World.success(s.status):
                            created.append(nt)
                            res.count("collections_recreated_with_another_type")
            if "calendars" in d["homes"] and life == 0:
                # a collection made by plain MKCOL that holds events is found as a calendar (the type is taken from its
                # members); a note dropped next to them - sorting before every event - does not change what it is
                nt = d["homes"]["calendars"].rstrip("/") + "/untyped/"
                s, r = wk.req("MKCOL", nt)
                if W.World.success(s.status):
                    tok = w.new_token()
                    wk.req("PUT", nt + "ev-%s.ics" % tok, [("Content-Type", "text/calendar")], gen.ical(rng, "c18-untyped-" + tok, tok, rich=False))
                    dg = wk.discover(start, life)
                    if dg is not None and nt in dg["calendars"]:
                        res.count("untyped_collections_found_as_calendar")
                        wk.req("PUT", nt + "0-readme.txt", [("Content-Type", "text/plain")], b"notes about this calendar\n")
                        dg2 = wk.discover(start, life)
                        if dg2 is not None and nt not in dg2["calendars"]:
                            wk.viol(f"{wk.sigbase()}/untyped-collection-with-events/no-longer-a-calendar-after-a-text-file-was-added", f"[{wk.shape()} life {life}] {nt} (plain MKCOL, one event) was reached as a calendar; "
                                    "after PUT 0-readme.txt it is not")
                        elif dg2 is not None:
                            created.append(nt)
            d2 = wk.discover(start, life)
            if d2 is None:
                return
            for t in created:
                if t not in d2["calendars"] and t not in d2["addressbooks"]:
                    wk.viol(f"{wk.sigbase()}/user-created-collection-not-reachable", f"[{wk.shape()} life {life}] {t} (just created by the user) is not reached by discovery with the type it was created with")
            for t in list(d2["calendars"])[:3]:
                tok = w.new_token()
                wk.req("PUT", t + "ev-%d-%s.ics" % (life, tok), [("Content-Type", "text/calendar")], gen.ical(rng, "c18-" + tok, tok, rich=False))
                wk.req("PROPPATCH", t, [X.XML_CT], X.proppatch(sets=[(X.P_DISPLAYNAME, "renamed in life %d" % life), (X.P_CALCOLOR, "#%06X" % rng.getrandbits(24))]))
            for t in list(d2["addressbooks"])[:2]:
                tok = w.new_token()
                wk.req("PUT", t + "c-%d-%s.vcf" % (life, tok), [("Content-Type", "text/vcard")], gen.vcard(rng, "c18-" + tok, tok, rich=False))
                wk.req("PROPPATCH", t, [X.XML_CT], X.proppatch(sets=[(X.P_ABDESC, "described in life %d" % life)]))
            if cfg.get("delete_default") and life == 0 and cfg["restarts"] >= 1:
                key = cfg["delete_default"]
                base_name = {"calendars": "calendar", "addressbooks": "addressbook"}[key]
                for t in list(d2[key]):
                    if t.rstrip("/").rsplit("/", 1)[-1] == base_name and len(d2["calendars"]) and len(d2["addressbooks"]):
                        sdel, _ = wk.req("DELETE", t)
                        if W.World.success(sdel.status):
                            deleted_defaults[t] = key
                            res.count("default_collections_deleted_by_user")
                            if bare_default and t.endswith(bare_default[0]):
                                bare_default = None      # (the restored repository was the default calendar: gone with it)
                d2 = wk.discover(start, life)
                if d2 is None:
                    return
            snap = wk.snapshot(d2)
            res.count("user_writes", sum(len(v["members"]) for v in snap.values()))
            if cfg.get("delete_home") and life == 0 and cfg["restarts"] >= 1 and mode == "defaults" and fe_kind == "aio" and "addressbooks" in d2["homes"] and d2["homes"].get("addressbooks") != d2["homes"].get("calendars"):
                # the last thing the user does before the server is restarted: removing the whole address book home.
                # The command-line server makes the principal's collections at every start with --defaults: it has to
                # come up again, with a home and an address book (what was in the old home is gone with it)
                hb = d2["homes"]["addressbooks"]
                inside = [t for t in d2["addressbooks"] if t.startswith(hb) and t.rstrip("/").rsplit("/", 1)[-1] == "addressbook"]
                sdel, _ = wk.req("DELETE", hb)
                if W.World.success(sdel.status):
                    res.count("home_sets_deleted_by_user")
                    created[:] = [t for t in created if not t.startswith(hb)]
                    for t in list(snap):
                        if t.startswith(hb):
                            del snap[t]
                    for t in inside:
                        deleted_defaults[t] = "addressbooks"
        if res.evaluations <= cfg["restarts"] + 1:
            res.sample({"config": cfg, "requests": wk.log[:14]})
    except Exception:
        res.inconclusive.append("harness exception: " + traceback.format_exc()[-1500:])
    finally:
        try:
            w.stop()
        except Exception:
            pass
        common.rmtree(base)


def run_shard(args):
    res = common.Result()
    for cfg in args["configs"]:
        run_config(cfg, res)
    return res


def all_configs(seed):
    out = []
    for fe, mode, prefix, principal, restarts in itertools.product(FES, MODES, PREFIXES, PRINCIPALS, RESTARTS):
        out.append({"fe": fe, "mode": mode, "prefix": prefix, "principal": principal, "restarts": restarts, "seed": seed * 1000 + len(out),
                    "delete_default": [None, "calendars", "addressbooks"][len(out) % 3] if restarts >= 1 else None, "bare_user_col": len(out) % 4 == 1})
        out[-1]["delete_home"] = restarts >= 1 and (len(out) // 3) % 2 == 0
    return out


def check(tier, seed, t0):
    cfgs = all_configs(seed)
    if tier == "quick":
        rng = random.Random(seed)
        # a covering sample: every value of every dimension, every (fe, mode) pair
        picked = []
        for fe in FES:
            for mode in MODES:
                for k in range(4):
                    picked.append({"fe": fe, "mode": mode, "prefix": PREFIXES[(k + len(picked)) % 3], "principal": PRINCIPALS[k] if k != 1 or mode != "autocreate" else PRINCIPALS[4 + (fe == "aio")],
                                   "restarts": [1, 0, 3, 1][k], "seed": seed * 1000 + len(picked),
                                   "delete_default": [("addressbooks" if mode != "autocreate" else None), None, "calendars", None][k], "bare_user_col": k == 1, "delete_home": k in (2, 3)})
        cfgs = picked
    n = 16
    shards = [{"configs": cfgs[i::n]} for i in range(n) if cfgs[i::n]]
    results, failures = common.run_shards("vf.props.c18", shards, timeout_s=400 if tier == "quick" else 3000)
    merged = common.merge(results)
    c = merged["counters"]
    guards = [("discovery walks", c.get("walks", 0), 40 if tier == "quick" else 400), ("well-known walks", c.get("wellknown_walks_ok", 0) + 0, 50 if tier == "quick" else 500),
              ("restarts", c.get("restarts", 0), 20 if tier == "quick" else 250), ("collections compared across restarts", c.get("collections_compared", 0), 40 if tier == "quick" else 500),
              ("members compared across restarts", c.get("members_compared", 0), 40 if tier == "quick" else 500),
              ("configurations with user data in a bare repository below the calendar home", c.get("configs_with_a_bare_user_collection", 0), 4 if tier == "quick" else 40),
              ("walks over a deployment whose default calendar is a bare repository with an event", c.get("bare_default_calendar_checks", 0), 3 if tier == "quick" else 30),
              ("address book homes deleted by the user before a --defaults restart", c.get("home_sets_deleted_by_user", 0), 2 if tier == "quick" else 10),
              ("untyped collections with events found as calendars", c.get("untyped_collections_found_as_calendar", 0), 10 if tier == "quick" else 100),
              ("collections deleted and re-created with another type at the same URL", c.get("collections_recreated_with_another_type", 0), 10 if tier == "quick" else 100),
              ("default collections deleted by the user and re-created by a --defaults restart", c.get("deleted_default_recreated", 0), 2 if tier == "quick" else 8)]
    return common.finish(PROP, tier, seed, "exploration", merged, failures, RULE + f"; {len(cfgs)} configurations this run", t0, guards=guards,
                         assumptions=["a mounted WSGI deployment strips the mount prefix into SCRIPT_NAME (vf/wsgihost.py)", "the client follows 3xx Location of /.well-known/*"],
                         exhaustive=(tier == "thorough"))


def replay(path):
    import json
    rp = json.load(open(path))
    cfg = rp["witness"]["config"]
    res = common.Result()
    run_config(cfg, res)
    for v in res.violations:
        print("VIOLATION property=%s replay=%s" % (PROP, path))
        print("  sig=%s :: %s" % (v["sig"], v["msg"][:300]))
    return 1 if res.violations else 0


# (what later rounds of seeded changes added to the workload; part of the evidence's description of the check)
RULE += "; " + "a bare repository with an event at the default calendar's path; an untyped collection with an event stays a calendar when a text file is added; the address book home deleted before a --defaults restart of the CLI server; a server that does not start again is a violation"
