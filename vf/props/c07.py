"""C07  sync-collection reports exactly the changes since the given token."""
from vf import common, histrun, monitors
from vf.props import _hist, _mk

PROP = "C07"
RULE = ("random write/delete histories (delete+recreate, no-op rewrites, reverts); after every step the collection's state {name: etag} and sync-token are snapshotted and "
        "sync-collection is issued with the empty token, the previous token and two random earlier tokens; the report is checked against the snapshot diff (changed with current "
        "ETag, removed as 404, nothing else, returned token = current token, replica(old)+report = current); never-issued tokens (random hex, truncated, upper-case, non-hex, "
        "non-ASCII, blob/commit ids, other collections' tokens) must be refused with a 4xx; distinct = distinct (backend, token class, #changed, #removed, old-state-empty?)")
WEIGHTS = {"put_same": 4, "put_reser": 2, "put_change": 8, "put_revert": 5, "put_new": 9, "delete": 8, "proppatch": 1, "restart": 0.6, "put_invalid": 1, "read": 1,
           "delete_col": 0.5, "mkcol_new": 1.2, "put_moved": 4, "put_swap": 3}
MON = [monitors.C07Monitor]


def run_shard(args):
    if args.get("mode") == "replica":
        return run_replica(args)
    return histrun.run_history(args, MON, common.Result(), weights=WEIGHTS, driver_kw={"pool": 7, "audit_every": 4})


def run_replica(args):
    """A syncing client (replica = {name: etag}, always syncing from the token it was given last) runs
    concurrently with a writing client against the real CLI server; delays are injected in the server at
    reads of the index / refs (where a report really can be overtaken by a worker-thread write).  At the
    end (quiescent) one more sync must make the replica equal to the collection."""
    import random
    import threading
    import time
    import traceback
    from vf import world as W, davxml as X, gen, fe as FE, monitors
    res = common.Result()
    rng = random.Random(args["seed"])
    base = common.mkscratch("c07r")
    agent = {"log": None, "delay_read_ms": args.get("delay_ms", 6), "delay_read_re": r"(/index$|/refs/heads/|/HEAD$|packed-refs$)", "delay_seed": args["seed"]}
    w = W.World(base, fe_kind="aio", prefix="/", seed=args["seed"], agent=agent)
    w.res = res
    try:
        w.start()
        if args["backend"] == "bare":
            w.stop()
            w.provision_bare("/user/calendars/rep/", "calendar", meta="gitconfig")
            w.start()
        else:
            w.mkcol("/user/calendars/rep/", "calendar")
        col = "/user/calendars/rep/"
        names = ["m%d.ics" % i for i in range(4)]
        for nm in names:
            w.put(col, nm, gen.ical(rng, "uid-" + nm, w.new_token(), rich=False))
        stop = threading.Event()
        counts = {"writes": 0, "syncs": 0, "sync_errors": 0}

        def writer():
            r = random.Random(args["seed"] + 1)
            k = 0
            while not stop.is_set():
                k += 1
                nm = r.choice(names)
                body = gen.ical(r, "uid-" + nm, "W%dz" % k, rich=False)
                resp = FE.raw_http(w.fe.addr, "PUT", w.url(col, nm), [("Content-Type", "text/calendar")], body, timeout=20)
                if resp.status in (201, 204):
                    counts["writes"] += 1
                time.sleep(r.random() * 0.01)

        replica = {}
        token = [None]

        def sync_once():
            resp = FE.raw_http(w.fe.addr, "REPORT", w.url(col), [("Depth", "1"), X.XML_CT], X.sync_collection(token[0]), timeout=20)
            if resp.status != 207:
                counts["sync_errors"] += 1
                return False
            ms, newtok, problems = monitors.parse_report_members(w, col, resp.body)
            for n, r_ in ms.items():
                if not n:
                    continue
                if r_.status == 404:
                    replica.pop(n, None)
                else:
                    et = r_.prop_text(X.P_ETAG)
                    if et is not None:
                        replica[n] = et
            token[0] = newtok
            counts["syncs"] += 1
            return True

        def syncer():
            while not stop.is_set():
                sync_once()

        # a second device syncs another collection (an address book that nobody writes to) at the same time, with a
        # different property list: every report must speak about its own collection and carry what it asked for
        col2 = "/user/contacts/rep2/"
        w.mkcol(col2, "addressbook")
        cards = ["k%d.vcf" % i for i in range(12)]
        for nm in cards:
            w.put(col2, nm, gen.vcard(rng, "uid-" + nm, w.new_token(), rich=False))
        mixups = []

        def other_syncer():
            while not stop.is_set():
                resp = FE.raw_http(w.fe.addr, "REPORT", w.url(col2), [("Depth", "1"), X.XML_CT], X.sync_collection(None, props=("{DAV:}getetag", "{DAV:}getcontentlength")), timeout=20)
                if resp.status != 207:
                    continue
                try:
                    ms, newtok, problems = monitors.parse_report_members(w, col2, resp.body)
                except X.MalformedXML:
                    mixups.append("ill-formed")
                    continue
                counts["other_syncs"] = counts.get("other_syncs", 0) + 1
                for pr in problems:
                    mixups.append(pr)
                names = {n for n in ms if n}
                if names != set(cards):
                    mixups.append("members %r instead of the %d cards" % (sorted(names ^ set(cards))[:4], len(cards)))
                for n, r_ in ms.items():
                    if n and (r_.prop_text(X.P_ETAG) is None or r_.prop_text("{DAV:}getcontentlength") is None):
                        mixups.append("member %r without the requested properties" % n)
                        break

        def syncer_len():
            # the calendar's syncer also asks for getcontentlength now and then (a property that reads the file)
            while not stop.is_set():
                resp = FE.raw_http(w.fe.addr, "REPORT", w.url(col), [("Depth", "1"), X.XML_CT], X.sync_collection(None, props=("{DAV:}getetag", "{DAV:}getcontentlength")), timeout=20)
                if resp.status != 207:
                    continue
                try:
                    ms, newtok, problems = monitors.parse_report_members(w, col, resp.body)
                except X.MalformedXML:
                    mixups.append("ill-formed")
                    continue
                for pr in problems:
                    mixups.append(pr)
                if {n for n in ms if n} - set(names):
                    mixups.append("calendar report lists %r" % sorted({n for n in ms if n} - set(names))[:4])

        tw, ts = threading.Thread(target=writer), threading.Thread(target=syncer)
        extra_threads = [threading.Thread(target=other_syncer), threading.Thread(target=syncer_len)]
        tw.start(); ts.start()
        for t in extra_threads:
            t.start()
        common.run_for(args["seconds"], lambda: counts["syncs"] >= 17 * args["seconds"] and counts["writes"] >= 7 * args["seconds"] and counts.get("other_syncs", 0) >= 7 * args["seconds"])
        stop.set()
        tw.join(); ts.join()
        for t in extra_threads:
            t.join()
        res.count("replica_other_collection_syncs", counts.get("other_syncs", 0))
        for m_ in sorted(set(mixups))[:10]:
            res.violation(f"aio/{args['backend']}/concurrent-sync/report-speaks-about-another-request", f"two devices syncing two collections at the same time: {m_}", {"config": dict(args)})
        # quiescent: one more incremental sync from the last token the client was given
        ok = sync_once()
        actual = {}
        for nm in names:
            st, et, body, _ = w.fetch(col, nm)
            if st == 200:
                actual[nm] = et
        res.evaluations += counts["syncs"]
        res.count("replica_syncs_concurrent_with_writes", counts["syncs"])
        res.count("replica_writes", counts["writes"])
        res.count("replica_runs")
        res.seen("replica", args["backend"], counts["syncs"] > 5, counts["writes"] > 5)
        res.seen("replica2", args["backend"], args["seed"])
        if not ok:
            res.inconclusive.append("final sync failed")
        elif replica != actual:
            diff = {n: (replica.get(n), actual.get(n)) for n in set(replica) | set(actual) if replica.get(n) != actual.get(n)}
            res.violation(f"aio/{args['backend']}/concurrent-sync/replica-diverges-after-final-sync", f"a client that always synced from the token it was given ends with a replica different from the collection: {diff!r} "
                          f"({counts['syncs']} syncs concurrent with {counts['writes']} writes)", {"config": dict(args)})
        res.sample({"config": dict(args), "counts": counts}, cap=2)
    except Exception:
        res.inconclusive.append("harness exception: " + traceback.format_exc()[-1500:])
    finally:
        w.stop()
        common.rmtree(base)
    return res


def check(tier, seed, t0):
    shards = _hist.plan(tier, seed, quick=(12, 70, 1), thorough=(16, 120, 6))
    for i in range(4 if tier == "quick" else 12):
        shards.append({"mode": "replica", "backend": ["tree", "bare"][i % 2], "seed": seed * 100 + 70 + i, "seconds": 6 if tier == "quick" else 30, "delay_ms": [4, 8][(i // 2) % 2]})
    merged, failures = _hist.run("vf.props.c07", shards, tier)
    c = merged["counters"]
    k = 1 if tier == "quick" else 8
    guards = [("sync reports checked", c.get("sync_reports", 0), 1500 * k), ("reports with non-empty change set", c.get("sync_nonempty", 0), 200 * k),
              ("reports with removals", c.get("sync_with_removals", 0), 100 * k), ("foreign-token probes", c.get("foreign_probes", 0), 100 * k),
              ("earlier-token reports", c.get("sync_reports:earlier-token", 0), 500 * k), ("restarts", c.get("restarts", 0), 3),
              ("syncs concurrent with writes (replica runs)", c.get("replica_syncs_concurrent_with_writes", 0), 300 * (1 if tier == "quick" else 6)), ("writes during replica runs", c.get("replica_writes", 0), 100),
              ("syncs of a second collection concurrent with the replica's", c.get("replica_other_collection_syncs", 0), 100 * (1 if tier == "quick" else 6))]
    return common.finish(PROP, tier, seed, "exploration", merged, failures, RULE, t0, guards=guards,
                         assumptions=["a token equal by value to one this collection issued is not foreign", "requests carry no DAV:limit"])


replay = _mk.make_replay(PROP, MON, WEIGHTS, {"pool": 7, "audit_every": 4})
