"""C07  sync-collection reports exactly the changes since the given token."""
from vf import common, histrun, monitors
from vf.props import _hist, _mk

PROP = "C07"
RULE = ("random write/delete histories (delete+recreate, no-op rewrites, reverts); after every step the collection's state {name: etag} and sync-token are snapshotted and "
        "sync-collection is issued with the empty token, the previous token and two random earlier tokens; the report is checked against the snapshot diff (changed with current "
        "ETag, removed as 404, nothing else, returned token = current token, replica(old)+report = current); never-issued tokens (random hex, truncated, upper-case, non-hex, "
        "non-ASCII, blob/commit ids, other collections' tokens) must be refused with a 4xx; distinct = distinct (backend, token class, #changed, #removed, old-state-empty?)")
WEIGHTS = {"put_same": 4, "put_reser": 2, "put_change": 8, "put_revert": 5, "put_new": 9, "delete": 8, "proppatch": 1, "restart": 0.6, "put_invalid": 1, "read": 1,
           "delete_col": 0.5, "mkcol_new": 1.2}
MON = [monitors.C07Monitor]


def run_shard(args):
    return histrun.run_history(args, MON, common.Result(), weights=WEIGHTS, driver_kw={"pool": 7, "audit_every": 4})


def check(tier, seed, t0):
    shards = _hist.plan(tier, seed, quick=(12, 70, 1), thorough=(16, 120, 6))
    merged, failures = _hist.run("vf.props.c07", shards, tier)
    c = merged["counters"]
    k = 1 if tier == "quick" else 8
    guards = [("sync reports checked", c.get("sync_reports", 0), 1500 * k), ("reports with non-empty change set", c.get("sync_nonempty", 0), 200 * k),
              ("reports with removals", c.get("sync_with_removals", 0), 100 * k), ("foreign-token probes", c.get("foreign_probes", 0), 100 * k),
              ("earlier-token reports", c.get("sync_reports:earlier-token", 0), 500 * k), ("restarts", c.get("restarts", 0), 3)]
    return common.finish(PROP, tier, seed, "exploration", merged, failures, RULE, t0, guards=guards,
                         assumptions=["a token equal by value to one this collection issued is not foreign", "requests carry no DAV:limit"])


replay = _mk.make_replay(PROP, MON, WEIGHTS, {"pool": 7, "audit_every": 4})
