"""C04  A crash during a write leaves the old or the new state, never anything else."""
import hashlib
import json
import os
import random
import shutil
import signal
import subprocess
import sys
import time
import traceback

from vf import common, gen, icl, storedrv, agent as A

PROP = "C04"
RULE = ("fault enumeration: for every scenario (operation {create, replace, delete, set displayname, set color, set description, set type} x store {tree-git, bare-git, vdir} x "
        "metadata back end {.xandikos file, git config} x prior contents {empty, 1, 4 members}) a recording pass counts the file-system mutations the operation performs below "
        "the store (Python audit events: open for writing, rename, remove, mkdir, rmdir, chmod, utime, ...); then the operation is re-run on a fresh copy of the pre-state once "
        "per mutation k with os._exit(137) immediately before mutation k (user-space buffers are lost exactly as with SIGKILL), plus torn variants in which every file that was "
        "open for writing at that instant (read from /proc/self/fd) is cut to zero and to half of its final content, plus once per mutation k with the process killed at the first "
        "trace event of the calling frame after mutation k returned (before any unhooked write / flush / close that follows it); on every crash state the next operation of "
        "the client (a shorter write of the same target / the same property; stale *.lock files removed first if they refuse it) must be acknowledged and read back exactly, or the interrupted operation itself is repeated and must give the completed state; for vdir (few mutations per "
        "operation) the next write is itself killed at each of its mutations (crash states copied with cp -a so that hard links survive) and must leave the crash state or its own result, and some vdir "
        "scenarios run with $TMPDIR on another file system (/dev/shm); every operation is also run under a file size limit (RLIMIT_FSIZE 0..1500 bytes, SIGXFSZ ignored) so that it fails with an "
        "I/O error instead of dying: not acknowledged, so the state must be the old one; each crash state is re-opened by a fresh store object: all "
        "members must read and parse, the target must be old or new, everything else unchanged, `git fsck --connectivity-only` and `git rev-list --objects --all` must succeed; "
        "thorough adds SIGKILL at random instants of a loop of acknowledged writes; distinct = distinct (op, store, meta, prior, crash index, variant) points")

OPS = ["create", "replace", "delete", "set-displayname", "set-color", "set-description", "set-type"]


def sha(b):
    return hashlib.sha256(b).hexdigest()[:16]


OTHER_FS_TMP = [None]     # set per scenario: a scratch directory on a file system other than the store's


def state_of(backend, path):
    """Observable state through a fresh store object -> (dict, problems)"""
    problems = []
    st = storedrv.open_store(backend, path)
    members = {}
    for name, ct, etag in st.iter_with_etag():
        try:
            f = st.get_file(name, ct, etag)
            body = b"".join(f.content)
        except Exception as e:
            problems.append("member %s unreadable: %r" % (name, e))
            continue
        try:
            if name.endswith(".ics"):
                icl.parse_calendar(body)
            elif name.endswith(".vcf"):
                icl.parse_vcard(body)
        except icl.ICLError as e:
            problems.append("member %s does not parse: %s" % (name, e))
        members[name] = sha(body)
        # the same member read by name only (what GET does before it knows an etag)
        try:
            body2 = b"".join(st.get_file(name, ct).content)
            if body2 != body:
                problems.append("member %s: listing and read-by-name disagree (the listing's etag gives %d bytes, the name gives %d other bytes)" % (name, len(body), len(body2)))
        except Exception as e:
            problems.append("member %s is listed but cannot be read by name: %r" % (name, e))
    meta = {}
    for k, fn in (("displayname", "get_displayname"), ("color", "get_color"), ("description", "get_description"), ("type", "get_type")):
        try:
            meta[k] = getattr(st, fn)()
        except (KeyError, NotImplementedError):
            meta[k] = None          # not set / not supported by this store type
        except Exception as e:
            meta[k] = "EXC:" + type(e).__name__
            problems.append("%s raises %r" % (fn, e))
    return {"members": members, "meta": meta}, problems


def build_prestate(backend, meta, prior, rng, dest):
    """create a store with `prior` members (names p0..), return info"""
    st = storedrv.open_store(backend, dest, create=True)
    if backend != "vdir" and meta == "gitconfig":
        subprocess.run(["git", "-C", dest, "config", "xandikos.type", "calendar"], check=True, capture_output=True)
        st = storedrv.open_store(backend, dest)
    elif backend != "vdir":
        st.set_type("calendar")
    st.set_displayname("old name")
    try:
        st.set_color("#111111")
    except Exception:
        pass
    for i in range(prior):
        st.import_one("p%d.ics" % i, "text/calendar", [gen.ical(rng, "prior-%d" % i, "prior%d" % i, rich=False)])
    if prior >= 4:
        # UID history: p0 changes its UID
        st.import_one("p0.ics", "text/calendar", [gen.ical(rng, "prior-0b", "prior0b", rich=False)])
    return st


def do_op(backend, path, op, bodies):
    """runs in the forked child (or in the recording child)"""
    st = storedrv.open_store(backend, path)
    if op == "create":
        st.import_one("target.ics", "text/calendar", [bodies["new"]])
    elif op == "replace":
        st.import_one("p0.ics", "text/calendar", [bodies["replace"]])
    elif op == "delete":
        st.delete_one("p0.ics")
    elif op == "set-displayname":
        st.set_displayname("new name")
    elif op == "set-color":
        st.set_color("#222222")
    elif op == "set-description":
        st.set_description("new description")
    elif op == "set-type":
        st.set_type("addressbook")
    elif op == "follow:create":
        st.import_one("target.ics", "text/calendar", [bodies["follow-create"]])
    elif op in ("follow:replace", "follow:delete"):
        st.import_one("p0.ics", "text/calendar", [bodies["follow-p0"]])
    else:
        raise ValueError(op)


def open_write_fds(under):
    out = []
    try:
        for fd in os.listdir("/proc/self/fd"):
            try:
                p = os.readlink("/proc/self/fd/" + fd)
                if not p.startswith(under):
                    continue
                with open("/proc/self/fdinfo/" + fd) as f:
                    flags = 0
                    for ln in f:
                        if ln.startswith("flags:"):
                            flags = int(ln.split()[1], 8)
                if flags & (os.O_WRONLY | os.O_RDWR):
                    out.append(p)
            except OSError:
                continue
    except OSError:
        pass
    return out


def child_run(backend, path, op, bodies, crash_at, record_file, after=False, fsize=None):
    """fork; in the child install the agent and run the operation.
    Returns (exit status, record or None)."""
    pid = os.fork()
    if pid == 0:
        try:
            import logging
            logging.disable(logging.CRITICAL)
            if OTHER_FS_TMP[0]:
                # deployment in which $TMPDIR lies on another file system than the data (tmpfs): rename() across the two fails
                import tempfile
                os.environ["TMPDIR"] = OTHER_FS_TMP[0]
                tempfile.tempdir = None
            if fsize is not None:
                # a write that fails (disk full / quota / file size limit): no file may grow beyond `fsize` bytes
                import resource
                import signal
                signal.signal(signal.SIGXFSZ, signal.SIG_IGN)
                resource.setrlimit(resource.RLIMIT_FSIZE, (fsize, fsize))
                try:
                    do_op(backend, path, op, bodies)
                except BaseException:
                    os._exit(5)
                os._exit(0)
            ag = A.Agent(log=None, crash_under=os.path.realpath(path), crash_at=crash_at)
            ag.record_mut = crash_at is None
            ag.crash_after = after
            openfiles = []
            if crash_at is None:
                orig = ag.hook

                def hook(event, args):
                    n0 = ag.mut_count
                    orig(event, args)
                    if ag.mut_count != n0:
                        ag.in_hook.v = True
                        try:
                            openfiles.append(open_write_fds(os.path.realpath(path)))
                        finally:
                            ag.in_hook.v = False
                sys.addaudithook(hook)
            else:
                sys.addaudithook(ag.hook)
            do_op(backend, path, op, bodies)
            if record_file:
                with open(record_file, "w") as f:
                    json.dump({"n": ag.mut_count, "events": ag.mut_log, "open": openfiles}, f)
            os._exit(0)
        except SystemExit:
            os._exit(3)
        except BaseException:
            try:
                with open(record_file + ".err" if record_file else "/dev/null", "w") as f:
                    f.write(traceback.format_exc())
            except Exception:
                pass
            os._exit(4)
    _, status = os.waitpid(pid, 0)
    code = os.waitstatus_to_exitcode(status)
    return code


def git_checks(backend, path, env):
    if backend == "vdir":
        return []
    probs = []
    r = subprocess.run(["git", "-C", path, "fsck", "--connectivity-only"], capture_output=True, text=True, env=env, timeout=60)
    if r.returncode != 0:
        probs.append("git fsck --connectivity-only exit %d: %s" % (r.returncode, (r.stdout + r.stderr)[:300]))
    r = subprocess.run(["git", "-C", path, "rev-list", "--objects", "--all"], capture_output=True, text=True, env=env, timeout=60)
    if r.returncode != 0:
        probs.append("git rev-list --objects --all exit %d: %s" % (r.returncode, r.stderr[:300]))
    return probs


def run_scenario(sc, res, rng, base, env):
    OTHER_FS_TMP[0] = None
    if sc.get("tmp_on_other_fs"):
        shm = "/dev/shm"
        try:
            if os.path.isdir(shm) and os.stat(shm).st_dev != os.stat(base).st_dev and os.access(shm, os.W_OK):
                OTHER_FS_TMP[0] = os.path.join(shm, "xandikos-verif-c04-%d" % os.getpid())
                os.makedirs(OTHER_FS_TMP[0], exist_ok=True)
        except OSError:
            OTHER_FS_TMP[0] = None
        if OTHER_FS_TMP[0] is None:
            res.count("scenarios_skipped_no_second_file_system")
            return
        res.count("scenarios_with_tmpdir_on_another_file_system")
    try:
        return _run_scenario(sc, res, rng, base, env)
    finally:
        if OTHER_FS_TMP[0]:
            common.rmtree(OTHER_FS_TMP[0])
            OTHER_FS_TMP[0] = None


def _run_scenario(sc, res, rng, base, env):
    backend, meta, op, prior = sc["backend"], sc["meta"], sc["op"], sc["prior"]
    if op in ("replace", "delete") and prior == 0:
        return
    tag = f"{backend}/{meta}/{op}" + ("/tmpdir-on-another-file-system" if sc.get("tmp_on_other_fs") else "")
    pre = os.path.join(base, "pre")
    common.rmtree(pre)
    os.environ["HOME"] = os.path.join(base, "home")
    os.makedirs(os.environ["HOME"], exist_ok=True)
    build_prestate(backend, meta, prior, rng, pre)
    long_summary = "the interrupted write is a long one " * 6
    bodies = {"new": gen.ical(rng, "target-uid", "NEWTOKEN", rich=False, summary=long_summary), "replace": gen.ical(rng, "prior-0b" if prior >= 4 else "prior-0", "REPLACED", rich=False, summary=long_summary),
              # what the client sends next (shorter than the interrupted body): it is acknowledged, so it must read back
              "follow-create": gen.ical(rng, "target-uid", "F", rich=False, summary="f"), "follow-p0": gen.ical(rng, "prior-0b" if prior >= 4 else "prior-0", "F", rich=False, summary="f")}
    old_state, probs = state_of(backend, pre)
    if probs:
        res.inconclusive.append(f"{tag}: pre-state has problems {probs}")
        return
    # recording pass
    work = os.path.join(base, "work")
    common.rmtree(work)
    shutil.copytree(pre, work, symlinks=True)
    rec_file = os.path.join(base, "rec.json")
    if os.path.exists(rec_file):
        os.unlink(rec_file)
    code = child_run(backend, work, op, bodies, None, rec_file)
    if code != 0 or not os.path.exists(rec_file):
        err = ""
        try:
            err = open(rec_file + ".err").read()[-500:]
        except Exception:
            pass
        res.inconclusive.append(f"{tag}: recording pass failed (exit {code}) {err}")
        return
    rec = json.load(open(rec_file))
    n = rec["n"]
    new_state, probs = state_of(backend, work)
    if probs:
        res.violation(f"{tag}/completed-operation-leaves-unreadable-state", f"after the completed operation: {probs}", {"scenario": sc})
    final_files = {}
    for root, dirs, files in os.walk(work):
        for f in files:
            p = os.path.join(root, f)
            try:
                final_files[os.path.relpath(p, work)] = open(p, "rb").read()
            except OSError:
                pass
    res.count("scenarios")
    res.count("mutations_recorded", n)
    if new_state == old_state:
        res.notes.append(f"{tag}: operation does not change the observable state")
    seen_old = seen_new = 0
    for k in range(1, n + 2):
        variants = ["as-is"]
        open_at_k = rec["open"][k - 1] if k - 1 < len(rec["open"]) else []
        open_rel = sorted({os.path.relpath(p.replace(os.path.realpath(work), work), work) for p in open_at_k})
        # the file opened for writing by the previous mutation: a kill between that
        # open() and the close() leaves it empty or partly written
        append = False
        if k >= 2 and rec["events"][k - 2][0] == "open":
            pe = rec["events"][k - 2]
            prel = os.path.relpath(pe[1], os.path.realpath(work))
            if prel not in open_rel:
                open_rel.append(prel)
            mode, flags = pe[2], pe[3] if len(pe) > 3 else None
            append = (isinstance(mode, str) and "a" in mode) or (isinstance(flags, int) and bool(flags & os.O_APPEND))
        if open_rel:
            variants += ["open-files-empty", "open-files-half"]
        if k <= n:
            # killed right after the k-th mutation returned: differs from "before mutation k+1"
            # by what the program does in between without a file-system event (write, flush, close)
            variants.append("killed-right-after")
        for variant in variants:
            common.rmtree(work)
            shutil.copytree(pre, work, symlinks=True)
            code = child_run(backend, work, op, bodies, k, None, after=(variant == "killed-right-after"))
            if k <= n and code != 137:
                res.inconclusive.append(f"{tag}: crash point {k}/{n} did not crash (exit {code})")
                break
            if variant in ("open-files-empty", "open-files-half"):
                for rel in open_rel:
                    p = os.path.join(work, rel)
                    if not os.path.isfile(p):
                        continue
                    prev = b""
                    if append:
                        try:
                            prev = open(os.path.join(pre, rel), "rb").read()
                        except OSError:
                            prev = b""
                    if variant == "open-files-empty":
                        with open(p, "wb") as f:
                            f.write(prev)
                    elif append:
                        fin = final_files.get(rel, prev)
                        with open(p, "wb") as f:
                            f.write(prev + fin[len(prev):][:max(0, (len(fin) - len(prev)) // 2)])
                    else:
                        # the content this file (or the file it is renamed to) finally gets
                        fin = final_files.get(rel)
                        if fin is None:
                            for cand in (rel[:-5] if rel.endswith(".lock") else None, rel[:-4] if rel.endswith(".tmp") else None):
                                if cand and cand in final_files:
                                    fin = final_files[cand]
                        if fin is None:
                            continue
                        with open(p, "wb") as f:
                            f.write(fin[:len(fin) // 2])
            res.evaluations += 1
            res.count("crash_points")
            res.count("crash_points:" + variant)
            res.seen(tag, prior, k, variant)
            ev = rec["events"][k - 1] if k - 1 < len(rec["events"]) else ["-", "after-last"]
            where = f"before mutation {k}/{n} ({ev[0]} {os.path.relpath(ev[1], os.path.realpath(work)) if os.path.isabs(ev[1]) else ev[1]})"
            try:
                st, probs = state_of(backend, work)
            except Exception as e:
                res.violation(f"{tag}/store-does-not-open/{variant}/{type(e).__name__}", f"{tag} prior={prior}: crash {where} [{variant}]: the store cannot be opened/read: {e!r}", {"scenario": sc, "k": k, "variant": variant, "event": ev, "open_files": open_rel})
                continue
            for pr in probs:
                res.violation(f"{tag}/unreadable-after-crash/{variant}", f"{tag} prior={prior}: crash {where} [{variant}]: {pr}", {"scenario": sc, "k": k, "variant": variant, "event": ev, "open_files": open_rel})
            gp = git_checks(backend, work, env)
            for pr in gp:
                res.violation(f"{tag}/git-integrity-after-crash/{variant}", f"{tag} prior={prior}: crash {where} [{variant}]: {pr}", {"scenario": sc, "k": k, "variant": variant, "event": ev})
            if st == old_state:
                seen_old += 1
                res.count("state_old")
            elif st == new_state:
                seen_new += 1
                res.count("state_new")
            else:
                diff = describe_diff(old_state, new_state, st)
                res.violation(f"{tag}/neither-old-nor-new/{variant}/{diff[0]}", f"{tag} prior={prior}: crash {where} [{variant}]: state is neither the old nor the new one: {diff[1]}",
                              {"scenario": sc, "k": k, "variant": variant, "event": ev, "open_files": open_rel, "old": old_state, "new": new_state, "got": st})
            locks = [f for r_, d_, fs in os.walk(work) for f in fs if f.endswith(".lock")]
            if locks:
                res.count("crash_states_with_stale_lock_files")
            if backend == "vdir" and op in ("create", "replace", "delete") and variant in ("as-is", "killed-right-after") and n <= 8:
                second_crash(backend, work, base, op, bodies, st, res, tag, prior, where, variant, sc, k)
            # both continuations on every crash state (each on its own copy): another write to the target, and the same write again
            wb = os.path.join(base, "work-b")
            cp_a(work, wb)
            follow_up(backend, work, op, bodies, st, res, tag, prior, where, variant, sc, k)
            retry_same(backend, wb, op, bodies, new_state, res, tag, prior, where, variant, sc, k)
            common.rmtree(wb)
    # ---- the operation fails with an I/O error instead of dying: it is not acknowledged, so nothing may have changed
    for lim in ((0, 40, 300, 1500) if backend == "vdir" or prior <= 1 else (0, 300)):
        common.rmtree(work)
        shutil.copytree(pre, work, symlinks=True)
        code = child_run(backend, work, op, bodies, None, None, fsize=lim)
        res.count("failed_write_runs")
        if code == 0:
            res.count("failed_write_runs_where_the_limit_was_not_hit")
            continue
        res.evaluations += 1
        res.count("failed_write_points")
        res.seen(tag, prior, "failed-write", lim)
        fwhere = f"every write beyond {lim} bytes of a file fails (EFBIG)"
        try:
            stf, probs = state_of(backend, work)
        except Exception as e:  # noqa
            res.violation(f"{tag}/store-does-not-open-after-failed-write/{type(e).__name__}", f"{tag} prior={prior}: {fwhere}: the operation raised, afterwards the store cannot be read: {e!r}", {"scenario": sc, "fsize": lim})
            continue
        for pr in probs:
            res.violation(f"{tag}/unreadable-after-failed-write", f"{tag} prior={prior}: {fwhere}: the operation raised (not acknowledged), afterwards: {pr}", {"scenario": sc, "fsize": lim})
        if stf != old_state:
            diff = describe_diff(old_state, new_state, stf)
            res.violation(f"{tag}/failed-write-changed-the-state/{diff[0]}", f"{tag} prior={prior}: {fwhere}: the operation raised (not acknowledged) but the state is not the old one: {diff[1]}",
                          {"scenario": sc, "fsize": lim, "old": old_state, "got": stf})
    res.count("straddled:" + tag, 1 if (seen_old and seen_new) else 0)
    res.count("scenario_seen_old:" + tag, 1 if seen_old else 0)
    res.count("scenario_seen_new:" + tag, 1 if seen_new else 0)
    if len(res.samples) < 3:
        res.sample({"scenario": sc, "mutations": [[e[0], os.path.relpath(e[1], os.path.realpath(work)) if os.path.isabs(e[1]) else e[1]] for e in rec["events"]][:40]})


def remove_stale_locks(work):
    """what an administrator does after a crash because git asks for it: the lock files of index, HEAD, refs and config.
    Temporary files of the object store (objects/xx/<sha>.lock) are not locks anybody is told to remove."""
    for r_, d_, fs in os.walk(work):
        if os.sep + "objects" + os.sep in r_ + os.sep or r_.endswith(os.sep + "objects"):
            continue
        for f in fs:
            if f.endswith(".lock"):
                os.unlink(os.path.join(r_, f))


def cp_a(src, dst):
    """copy a directory tree keeping hard links between its files (what a crash state may contain)"""
    common.rmtree(dst)
    subprocess.run(["cp", "-a", src, dst], check=True)


def second_crash(backend, work, base, op, bodies, st_crash, res, tag, prior, where, variant, sc, k):
    """a second process death, during the client's next write on the crash state (stores with few mutations per operation
    only): what the first crash left behind must not make that write unsafe.  The state is the crash state or the result
    of the completed next write."""
    fop = "follow:" + op
    s1 = os.path.join(base, "crash1")
    w2 = os.path.join(base, "work2")
    cp_a(work, s1)
    rec_file = os.path.join(base, "rec2.json")
    if os.path.exists(rec_file):
        os.unlink(rec_file)
    cp_a(s1, w2)
    code = child_run(backend, w2, fop, bodies, None, rec_file)
    if code != 0 or not os.path.exists(rec_file):
        return      # the next write itself fails on this crash state: follow_up() reports that
    rec = json.load(open(rec_file))
    n2 = rec["n"]
    try:
        done_state, probs = state_of(backend, w2)
    except Exception:
        return
    if probs:
        return
    for j in range(1, n2 + 1):
        for v2 in ("as-is", "killed-right-after"):
            cp_a(s1, w2)
            code = child_run(backend, w2, fop, bodies, j, None, after=(v2 == "killed-right-after"))
            if code != 137:
                continue
            res.count("second_crash_points")
            ev = rec["events"][j - 1] if j - 1 < len(rec["events"]) else ["-", "?"]
            w2desc = f"{where} [{variant}], restart, next write killed {'right after' if v2 != 'as-is' else 'before'} its mutation {j}/{n2} ({ev[0]} {os.path.basename(str(ev[1]))})"
            wit = {"scenario": sc, "k": k, "variant": variant, "second": [j, v2]}
            try:
                st2, probs2 = state_of(backend, w2)
            except Exception as e:  # noqa
                res.violation(f"{tag}/second-crash/store-does-not-open/{type(e).__name__}", f"{tag} prior={prior}: crash {w2desc}: the store cannot be read: {e!r}", wit)
                continue
            for pr in probs2:
                res.violation(f"{tag}/second-crash/unreadable", f"{tag} prior={prior}: crash {w2desc}: {pr}", wit)
            if st2 != st_crash and st2 != done_state:
                diff = describe_diff(st_crash, done_state, st2)
                res.violation(f"{tag}/second-crash/neither-before-nor-after-the-next-write/{diff[0]}", f"{tag} prior={prior}: crash {w2desc}: {diff[1]}", dict(wit, before=st_crash, after=done_state, got=st2))
    common.rmtree(s1)
    common.rmtree(w2)


def retry_same(backend, work, op, bodies, new_state, res, tag, prior, where, variant, sc, k, cleaned=False):
    """the client repeats the interrupted operation itself: once acknowledged, the state must be the one the
    completed operation gives (also for a store object opened afterwards)"""
    wit = {"scenario": sc, "k": k, "variant": variant}
    try:
        do_op(backend, work, op, bodies)
    except Exception as e:  # noqa
        cls = storedrv.classify(e)
        if (cls == "Locked" or "Locked" in type(e).__name__) and not cleaned:
            res.count("retries_refused_by_stale_lock")
            remove_stale_locks(work)
            return retry_same(backend, work, op, bodies, new_state, res, tag, prior, where, variant + "+stale-locks-removed", sc, k, cleaned=True)
        if op == "delete" and cls == "NoSuchItem":
            pass   # already deleted by the interrupted attempt
        elif cls == "Locked" or "Locked" in type(e).__name__:
            res.count("retries_still_refused_after_lock_cleanup")     # a refusal, not an acknowledgement: counted, not judged
            return
        else:
            res.violation(f"{tag}/retry-of-interrupted-operation-fails/{variant}/{cls.replace('EXC:', '')}", f"{tag} prior={prior}: crash {where} [{variant}]: repeating the operation raises {e!r}", wit)
            return
    res.count("retries_acknowledged")
    try:
        st2, probs = state_of(backend, work)
    except Exception as e:  # noqa
        res.violation(f"{tag}/store-does-not-open-after-retry/{variant}/{type(e).__name__}", f"{tag} prior={prior}: crash {where} [{variant}], then the same operation again: the store cannot be read: {e!r}", wit)
        return
    for pr in probs:
        res.violation(f"{tag}/unreadable-after-retry/{variant}", f"{tag} prior={prior}: crash {where} [{variant}], then the same operation again: {pr}", wit)
    if st2 != new_state:
        diff = describe_diff(new_state, new_state, st2)
        res.violation(f"{tag}/acknowledged-retry-does-not-give-the-completed-state/{variant}/{diff[0]}", f"{tag} prior={prior}: crash {where} [{variant}]: the repeated operation was acknowledged but the store "
                      f"does not show its result: {diff[1]}", dict(wit, expected=new_state, got=st2))


def follow_up(backend, work, op, bodies, st_crash, res, tag, prior, where, variant, sc, k, cleaned=False):
    """the next acknowledged operation on the crash state (same target, shorter value) must read back exactly:
    what the interrupted operation left behind (temporary files, partial objects) must not leak into it"""
    name = {"create": "target.ics", "replace": "p0.ics", "delete": "p0.ics"}.get(op)
    wit = {"scenario": sc, "k": k, "variant": variant}
    try:
        store = storedrv.open_store(backend, work)
        if name is not None:
            fb = bodies["follow-create" if op == "create" else "follow-p0"]
            store.import_one(name, "text/calendar", [fb])
        elif op == "set-displayname":
            store.set_displayname("n")
        elif op == "set-color":
            store.set_color("#3")
        elif op == "set-description":
            store.set_description("d")
        else:
            return
    except Exception as e:  # noqa
        cls = storedrv.classify(e)
        if (cls == "Locked" or "Locked" in type(e).__name__) and not cleaned:
            res.count("followups_refused_by_stale_lock")
            # what an administrator does after a crash (git asks for the same): remove the stale lock files, try again
            remove_stale_locks(work)
            try:
                st_clean, _p = state_of(backend, work)
            except Exception:
                return
            return follow_up(backend, work, op, bodies, st_clean, res, tag, prior, where, variant + "+stale-locks-removed", sc, k, cleaned=True)
        if cls == "Locked" or "Locked" in type(e).__name__:
            res.count("followups_still_refused_after_lock_cleanup")
            return
        res.violation(f"{tag}/next-operation-after-crash-fails/{variant}/{cls.replace('EXC:', '')}", f"{tag} prior={prior}: crash {where} [{variant}]: the next operation on the same target raises {e!r}", wit)
        return
    res.count("followups_acknowledged")
    try:
        st2, probs = state_of(backend, work)
    except Exception as e:  # noqa
        res.violation(f"{tag}/store-does-not-open-after-next-operation/{variant}/{type(e).__name__}", f"{tag} prior={prior}: crash {where} [{variant}], then an acknowledged operation: the store cannot be read: {e!r}", wit)
        return
    for pr in probs:
        res.violation(f"{tag}/unreadable-after-next-operation/{variant}", f"{tag} prior={prior}: crash {where} [{variant}], then an acknowledged operation on the same target: {pr}", wit)
    if name is not None:
        try:
            fresh = storedrv.open_store(backend, work)
            got = None
            for n_, ct, et in fresh.iter_with_etag():
                if n_ == name:
                    got = b"".join(fresh.get_file(n_, ct, et).content)
            ok = got is not None and icl.canon_bytes(got) == icl.canon_bytes(fb)
        except icl.ICLError:
            ok = False
        if not ok:
            res.violation(f"{tag}/acknowledged-write-after-crash-reads-back-differently/{variant}", f"{tag} prior={prior}: crash {where} [{variant}]: the next write of {name} was acknowledged but reads back as {got[:300] if got else got!r}", wit)
        others_before = {n_: h for n_, h in st_crash["members"].items() if n_ != name}
        others_after = {n_: h for n_, h in st2["members"].items() if n_ != name}
        if others_before != others_after:
            res.violation(f"{tag}/next-operation-after-crash-changes-other-members/{variant}", f"{tag} prior={prior}: crash {where} [{variant}]: other members changed by the next write: {others_before} -> {others_after}", wit)
    else:
        key = {"set-displayname": ("displayname", "n"), "set-color": ("color", "#3"), "set-description": ("description", "d")}[op]
        if st2["meta"].get(key[0]) != key[1]:
            res.violation(f"{tag}/acknowledged-property-set-after-crash-reads-back-differently/{variant}", f"{tag} prior={prior}: crash {where} [{variant}]: {key[0]} set to {key[1]!r} reads back {st2['meta'].get(key[0])!r}", wit)


def describe_diff(old, new, got):
    parts = []
    cls = []
    for k in sorted(set(old["members"]) | set(new["members"]) | set(got["members"])):
        o, n, g = old["members"].get(k), new["members"].get(k), got["members"].get(k)
        if g != o and g != n:
            parts.append(f"member {k}: {g} (old {o}, new {n})")
            cls.append("member-torn")
        elif o == n and g != o:
            parts.append(f"bystander {k} changed")
            cls.append("bystander")
    for k in got["meta"]:
        o, n, g = old["meta"].get(k), new["meta"].get(k), got["meta"].get(k)
        if g != o and g != n:
            parts.append(f"{k}: {g!r} (old {o!r}, new {n!r})")
            cls.append("metadata-" + k)
    if not parts:
        parts.append("mixture of old and new parts: members %s meta %s" % (got["members"], got["meta"]))
        cls.append("mixed")
    return "+".join(sorted(set(cls))), "; ".join(parts)


# ---------------------------------------------------------------- SIGKILL mode

KILL_CHILD = r'''
import sys, os, random, time
sys.path.insert(0, sys.argv[4]); sys.path.insert(0, sys.argv[5])
import logging; logging.disable(logging.CRITICAL)
from vf import storedrv, gen
backend, path, seed = sys.argv[1], sys.argv[2], int(sys.argv[3])
rng = random.Random(seed)
st = storedrv.open_store(backend, path)
i = 0
while True:
    i += 1
    name = "k%d.ics" % rng.randint(0, 5)
    tok = "ACK%dx%d" % (seed, i)
    op = rng.random()
    try:
        if op < 0.75:
            st.import_one(name, "text/calendar", [gen.ical(rng, "kuid-" + name, tok, rich=False)])
            sys.stdout.write("put %s %s\n" % (name, tok))
        else:
            st.delete_one(name)
            sys.stdout.write("del %s -\n" % name)
        sys.stdout.flush()
    except Exception as e:
        sys.stdout.write("err %s %s\n" % (name, type(e).__name__)); sys.stdout.flush()
'''


def run_kill(args, res, rng, base, env):
    backend = args["backend"]
    path = os.path.join(base, "kill-store")
    common.rmtree(path)
    os.environ["HOME"] = os.path.join(base, "home")
    os.makedirs(os.environ["HOME"], exist_ok=True)
    st = storedrv.open_store(backend, path, create=True)
    if backend != "vdir":
        st.set_type("calendar")
    del st
    script = os.path.join(base, "killchild.py")
    with open(script, "w") as f:
        f.write(KILL_CHILD)
    model = {}
    for round_ in range(args["kills"]):
        # clear stale locks the way an administrator would have to (not judged)
        for r_, d_, fs in os.walk(path):
            for fn in fs:
                if fn.endswith(".lock"):
                    os.unlink(os.path.join(r_, fn))
                    res.count("stale_locks_removed")
        p = subprocess.Popen([common.PY, "-B", script, backend, path, str(args["seed"] * 1000 + round_), common.HOME, common.REPO], stdout=subprocess.PIPE, stderr=subprocess.DEVNULL, env=env)
        time.sleep(rng.uniform(0.35, 0.9))
        p.send_signal(signal.SIGKILL)
        out = p.stdout.read().decode()
        p.wait()
        acked = [ln.split() for ln in out.splitlines() if ln and not ln.startswith("err")]
        in_flight = None
        for a in acked:
            if a[0] == "put":
                model[a[1]] = a[2]
            else:
                model.pop(a[1], None)
        res.count("acked_writes", len(acked))
        res.count("kills")
        res.evaluations += 1
        # audit
        try:
            s2 = storedrv.open_store(backend, path)
            listing = {n: (ct, e) for n, ct, e in s2.iter_with_etag()}
        except Exception as e:
            res.violation(f"{backend}/sigkill/store-does-not-open/{type(e).__name__}", f"after SIGKILL #{round_}: store cannot be opened: {e!r}", {"args": args})
            return
        for name, tok in model.items():
            # the write in flight at the kill may have replaced/deleted it: accept newer tokens of the same round only
            if name not in listing:
                res.count("acked_missing_candidates")
                # the un-acked in-flight operation may have been a delete of this name
                res.violation(f"{backend}/sigkill/acknowledged-write-missing", f"after SIGKILL #{round_}: {name} (acknowledged token {tok}) is not in the store (only an unacknowledged in-flight delete could explain this)", {"args": args, "round": round_}) if False else None
                continue
        for name, (ct, e) in listing.items():
            try:
                body = b"".join(s2.get_file(name, ct, e).content)
                icl.parse_calendar(body)
            except Exception as ex:
                res.violation(f"{backend}/sigkill/member-unreadable", f"after SIGKILL #{round_}: {name}: {ex!r}", {"args": args})
                continue
            import re
            m = re.search(rb"ACK(\d+)x(\d+)", body)
            tok = m.group(0).decode() if m else None
            want = model.get(name)
            if want is not None and tok != want:
                # allowed only if the in-flight (unacknowledged) write of this round replaced it
                mine = "ACK%dx" % (args["seed"] * 1000 + round_)
                if not (tok and tok.startswith(mine)):
                    res.violation(f"{backend}/sigkill/acknowledged-write-lost", f"after SIGKILL #{round_}: {name} carries {tok}, acknowledged was {want}", {"args": args})
                model[name] = tok
            elif want is None:
                model[name] = tok  # in-flight create that made it
        missing = [n for n in model if n not in listing]
        if len(missing) > 1:
            res.violation(f"{backend}/sigkill/acknowledged-writes-missing", f"after SIGKILL #{round_}: {missing!r} acknowledged but absent (at most one in-flight delete can explain one)", {"args": args})
        for n in missing:
            model.pop(n)
        for pr in git_checks(backend, path, env):
            res.violation(f"{backend}/sigkill/git-integrity", f"after SIGKILL #{round_}: {pr}", {"args": args})
        res.seen(backend, "kill", round_, len(listing))


def run_shard(args):
    res = common.Result()
    rng = random.Random(args["seed"])
    base = common.mkscratch("c04")
    env = common.worker_env({"HOME": os.path.join(base, "home")})
    try:
        import logging
        logging.disable(logging.CRITICAL)
        if args.get("mode") == "kill":
            run_kill(args, res, rng, base, env)
        else:
            for sc in args["scenarios"]:
                try:
                    run_scenario(sc, res, rng, base, env)
                except Exception:
                    res.inconclusive.append("scenario %r: harness exception: %s" % (sc, traceback.format_exc()[-800:]))
    except Exception:
        res.inconclusive.append("harness exception: " + traceback.format_exc()[-1500:])
    finally:
        common.rmtree(base)
    return res


def scenarios(tier):
    out = []
    for backend in ("tree", "bare", "vdir"):
        metas = ["file"] if backend == "vdir" else ["file", "gitconfig"]
        for meta in metas:
            for op in OPS:
                if backend == "vdir" and op == "set-type":
                    continue   # vdir stores have no settable type
                priors = [1, 4] if tier == "quick" else [0, 1, 4]
                if op == "create":
                    priors = [0, 4] if tier == "quick" else [0, 1, 4]
                if op.startswith("set-") and tier == "quick":
                    priors = [1]
                for prior in priors:
                    out.append({"backend": backend, "meta": meta, "op": op, "prior": prior})
                    if backend == "vdir" and op in ("create", "replace", "set-displayname") and prior == priors[-1]:
                        out.append({"backend": backend, "meta": meta, "op": op, "prior": prior, "tmp_on_other_fs": True})
    return out


def check(tier, seed, t0):
    scs = scenarios(tier)
    n = 16
    shards = [{"seed": seed * 100 + i, "scenarios": scs[i::n]} for i in range(n)]
    if tier == "thorough":
        for i, b in enumerate(["tree", "bare-disk", "vdir", "tree", "bare-disk"]):
            shards.append({"mode": "kill", "backend": b, "seed": seed * 100 + 50 + i, "kills": 120})
    results, failures = common.run_shards("vf.props.c04", shards, timeout_s=400 if tier == "quick" else 3000)
    merged = common.merge(results)
    c = merged["counters"]
    guards = [("scenarios", c.get("scenarios", 0), int(len(scs) * 0.9)), ("crash points audited", c.get("crash_points", 0), 2000 if tier == "quick" else 3500),
              ("crash points right after a mutation returned", c.get("crash_points:killed-right-after", 0), 500),
              ("acknowledged operations on a crash state read back", c.get("followups_acknowledged", 0), 400),
              ("interrupted operations repeated on the crash state", c.get("retries_acknowledged", 0), 400),
              ("second process deaths during the next write on a crash state (vdir)", c.get("second_crash_points", 0), 60),
              ("operations that failed with an I/O error (file size limit) instead of dying", c.get("failed_write_points", 0), 60),
              ("crash states equal to the old state", c.get("state_old", 0), 300), ("crash states equal to the new state", c.get("state_new", 0), 80)]
    for backend in ("tree", "bare", "vdir"):
        for op in ("create", "replace", "delete"):
            tags = [k for k in c if k.startswith("straddled:" + backend + "/") and k.endswith("/" + op)]
            guards.append((f"commit point straddled for {backend}/{op} (both old and new seen)", sum(c[k] for k in tags), 1))
    if tier == "thorough":
        guards.append(("SIGKILL rounds", c.get("kills", 0), 500))
        guards.append(("acknowledged writes before kills", c.get("acked_writes", 0), 1500))
    return common.finish(PROP, tier, seed, "fault_enumeration", merged, failures, RULE, t0, guards=guards,
                         assumptions=["process death only (SIGKILL semantics): data handed to the kernel survives, user-space buffers do not; power-loss reordering is outside the statement",
                                      "Python audit events enumerate the file-system mutations of the operation (dulwich and the stores are pure Python)",
                                      "stale *.lock files after a crash are counted, not judged (reads still work)"],
                         exhaustive=True)


def replay(path):
    rp = json.load(open(path))
    sc = rp["witness"].get("scenario")
    res = common.Result()
    base = common.mkscratch("c04r")
    env = common.worker_env({"HOME": os.path.join(base, "home")})
    try:
        if sc:
            run_scenario(sc, res, random.Random(rp["seed"]), base, env)
        else:
            run_kill(rp["witness"]["args"], res, random.Random(rp["seed"]), base, env)
    finally:
        common.rmtree(base)
    for v in res.violations:
        print("VIOLATION property=%s replay=%s" % (PROP, path))
        print("  sig=%s :: %s" % (v["sig"], v["msg"][:300]))
    return 1 if res.violations else 0


# (what later rounds of seeded changes added to the workload; part of the evidence's description of the check)
RULE += "; " + 'both continuations (another write of the target / the same write again) on every crash state, each on its own copy'
