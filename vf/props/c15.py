"""C15  Collection properties read back as written, persist, and stay separate."""
import random
import traceback

from vf import common, gen, world as W, davxml as X

PROP = "C15"
RULE = ("interleaved set / remove / read / restart of displayname, calendar-color, calendar-order, addressbook-description, addressbook-color and comment over four collections "
        "(tree-git calendar and address book created by MKCALENDAR / extended MKCOL with initial properties, bare-git calendar with the git-config metadata back end, bare-git "
        "address book with the .xandikos back end), values drawn from a grammar of configuration-file metacharacters (%, %%, %(x)s, $, ${x}, quotes, brackets, #, ;, =, :, "
        "backslash, inner blanks/tabs, XML specials, non-ASCII; inner line feeds as a separately classified class); after every operation all properties of all collections are "
        "re-read by PROPFIND and compared with the values whose set was reported 200; members are re-read too; both front ends; "
        "distinct = distinct (metadata back end, property, value feature class, outcome)")

ATOMS = ["plain", "two words", "100%", "%%", "50%% off", "%(x)s", "%(displayname)s", "a%b", "$HOME", "${x}", "$(x)", "'single'", "\"double\"", "[section]", "[a", "b]", "# hash", "a#b",
         "semi;colon", "; lead", "key=value", "=eq", "a:b", "back\\slash", "\\n", "\\", "tab\there", "a  b", "<tag>", "&amp;", "a&b", "Ünïcödé", "日本語", "😀", "é", "x" * 300,
         "true", "None", "0", "~", "`cmd`", "a|b", "{json: 1}", "\\x00", "%", "trailing\\"]
# characters that str.splitlines() (but no XML, configparser or git-config reader) treats as line ends: typical of pasted text
USEP_ATOMS = ["pasted\u2028text", "two\u2029paragraphs: b = c", "next\u0085line", "a\u2028#b", "x\u2028[y]"]
NL_ATOMS = ["a\n#b", "a\n;b", "a\n[sec]", "a\n  b", "a\n\nb", "a\nb=c", "a\nb"]

FEATURES = [("newline", "\n"), ("unicode-line-separator", "\u2028"), ("unicode-line-separator", "\u2029"), ("unicode-line-separator", "\u0085"), ("percent-paren", "%("), ("percent", "%"), ("hash", "#"), ("semicolon", ";"), ("backslash", "\\"), ("dquote", "\""), ("squote", "'"),
            ("bracket", "["), ("bracket", "]"), ("equals", "="), ("colon", ":"), ("dollar", "$"), ("tab", "\t"), ("double-blank", "  "), ("xml-special", "<"), ("xml-special", "&")]


def feature(v):
    for nm, ch in FEATURES:
        if ch in v:
            return nm
    if any(ord(c) > 127 for c in v):
        return "nonascii"
    if len(v) > 200:
        return "long"
    return "plain"


def gen_value(rng, prop, meta, allow_nl):
    if prop in (X.P_CALCOLOR, X.P_ABCOLOR):
        v = "#%06X" % rng.getrandbits(24)
        if rng.random() < 0.3:
            v += "%02X" % rng.getrandbits(8)
        return v if rng.random() < 0.5 else v.lower()
    if prop == X.P_CALORDER:
        return str(rng.choice([0, 1, 7, 42, 1000, 99999]))
    for _ in range(20):
        if allow_nl and rng.random() < 0.12:
            v = rng.choice(NL_ATOMS)
        else:
            v = rng.choice(ATOMS) if rng.random() > 0.08 else rng.choice(USEP_ATOMS)
            if rng.random() < 0.4:
                v = v + " " + rng.choice(ATOMS)
        v = v.strip()
        if not v:
            continue
        if meta == "gitconfig" and ";" in v:
            continue
        return v
    return "plain"


COLS = [
    # path, kind, backend, meta
    ("/user/calendars/cal0/", "calendar", "tree", "file"),
    ("/user/contacts/ab0/", "addressbook", "tree", "file"),
    ("/user/calendars/barecal/", "calendar", "bare", "gitconfig"),
    ("/user/contacts/bareab/", "addressbook", "bare", "file"),
]
PROPS = {
    "calendar": [X.P_DISPLAYNAME, X.P_CALCOLOR, X.P_CALORDER, X.P_COMMENT],
    "addressbook": [X.P_DISPLAYNAME, X.P_ABDESC, X.P_ABCOLOR, X.P_COMMENT],
}
NOT_SETTABLE = {"calendar": [X.P_CALDESC, X.P_ETAG, X.P_RESOURCETYPE], "addressbook": [X.P_ETAG, X.P_SYNCTOKEN]}


def propstat_of(body):
    """{property: status} from a mkcol-response / mkcalendar-response body"""
    ok = {}
    try:
        import xml.etree.ElementTree as ET
        el = ET.fromstring(body)
        for ps in el.iter("{DAV:}propstat"):
            st = X._status_code(ps.findtext("{DAV:}status"))
            for pr in ps.find("{DAV:}prop"):
                ok[pr.tag] = st
    except Exception:
        pass
    return ok


class Runner:
    def __init__(self, w, res, rng, cfg):
        self.w, self.res, self.rng, self.cfg = w, res, rng, cfg
        self.model = {c[0]: {} for c in COLS}     # path -> {prop: value}
        self.provenance = {c[0]: {} for c in COLS}
        self.members = {}
        self.removed = {c[0]: {} for c in COLS}   # path -> {prop: value it had when it was removed}
        self.log = []

    def viol(self, sig, msg, extra=None):
        self.res.violation(sig, msg, {"config": self.cfg, "detail": extra, "ops": self.log[-15:]})

    def read_all(self, when):
        w, res = self.w, self.res
        for (p, kind, backend, meta) in COLS:
            s, r = w.propfind(w.url(p), PROPS[kind], "0", record=False)
            res.count("readbacks")
            if r.status != 207:
                self.viol(f"{meta}/propfind-failed", f"PROPFIND {p} answered {r.status} ({when})")
                continue
            try:
                rs, _ = X.parse_multistatus(r.body)
            except X.MalformedXML as e:
                self.viol(f"{meta}/propfind-ill-formed", f"PROPFIND {p}: {e}")
                continue
            resp = rs[0]
            for prop in PROPS[kind]:
                want = self.model[p].get(prop)
                got = resp.prop_text(prop)
                st = resp.prop_status(prop)
                if want is None:
                    old = self.removed[p].get(prop)
                    if old is not None:
                        res.count("removed_value_checks")
                        if got == old:
                            self.viol(f"{meta}/{X.q(prop)}/removed-value-served-again", f"{p}: {prop} was removed (reported 200) but PROPFIND returns the old value {old!r} again ({when})")
                    continue
                res.count("value_comparisons")
                fc = feature(want)
                pv = self.provenance[p].get(prop, "?")
                pkey = X.q(prop) + "/" + fc if fc != "newline" else "multiline-value"
                if got is None:
                    self.viol(f"{meta}/{pkey}/read-back-missing", f"{p}: {prop} was set to {want!r} ({pv}, reported 200) but PROPFIND answers {st} for it ({when})")
                elif got != want:
                    self.viol(f"{meta}/{pkey}/read-back-differs", f"{p}: {prop} was set to {want!r} ({pv}, reported 200) but reads back {got!r} ({when})")
            # members intact
            for nm, (body, etag) in self.members.get(p, {}).items():
                st, et, b, _ = w.fetch(p, nm)
                if st != 200 or b != body or et != etag:
                    self.viol(f"{meta}/member-changed-by-property-operation", f"{p}{nm}: member changed ({st}, etag {et} vs {etag}) ({when})")

    def op_set(self):
        w, rng, res = self.w, self.rng, self.res
        p, kind, backend, meta = rng.choice(COLS)
        prop = rng.choice(PROPS[kind])
        v = gen_value(rng, prop, meta, allow_nl=True)
        s, r, results = w.proppatch(p, sets=[(prop, v)])
        st = results.get(prop)
        fc = feature(v)
        self.log.append({"op": "set", "col": p, "prop": prop, "value": v, "http": s.status, "propstat": st})
        res.evaluations += 1
        res.count("sets")
        res.count("set_status:%s" % (st if st is not None else "http-%s" % s.status))
        res.seen(meta, prop, fc, st if st is not None else s.status)
        if st == 200:
            self.model[p][prop] = v
            self.removed[p].pop(prop, None)
            self.provenance[p][prop] = "PROPPATCH"
            res.count("sets_ok")
            res.count("sets_ok:" + fc)
        elif s.status >= 500 or s.status == 0:
            res.count("set_5xx:" + fc)
            # a failed set must not have half-happened: value is whatever it was
        self.read_all("after-set")

    def op_set_multi(self):
        """several properties in one PROPPATCH, in random order (what calendar clients send)"""
        w, rng, res = self.w, self.rng, self.res
        p, kind, backend, meta = rng.choice(COLS)
        props = rng.sample(PROPS[kind], rng.randint(2, len(PROPS[kind])))
        sets = [(pr, gen_value(rng, pr, meta, allow_nl=False)) for pr in props]
        s, r, results = w.proppatch(p, sets=sets)
        self.log.append({"op": "set-multi", "col": p, "sets": sets, "http": s.status, "propstat": {k: results.get(k) for k, _ in sets}})
        res.evaluations += 1
        res.count("multi_sets")
        for pr, v in sets:
            if results.get(pr) == 200:
                self.model[p][pr] = v
                self.removed[p].pop(pr, None)
                self.provenance[p][pr] = "PROPPATCH with %d properties (%s)" % (len(sets), ", ".join(X.q(x) for x, _ in sets))
                res.count("sets_ok")
                res.count("sets_ok:" + feature(v))
        res.seen(meta, "multi", tuple(sorted(X.q(x) for x, _ in sets)))
        self.read_all("after-set")

    def op_remove(self):
        w, rng, res = self.w, self.rng, self.res
        p, kind, backend, meta = rng.choice(COLS)
        have = sorted(self.model[p])
        if not have:
            return
        prop = rng.choice(have)
        s, r, results = w.proppatch(p, removes=[prop])
        st = results.get(prop)
        self.log.append({"op": "remove", "col": p, "prop": prop, "http": s.status, "propstat": st})
        res.evaluations += 1
        res.count("removes")
        res.count("remove_status:%s" % (st if st is not None else "http-%s" % s.status))
        if st == 200:
            res.count("removes_ok")
            old = self.model[p].pop(prop, None)
            if old is not None:
                self.removed[p][prop] = old
            # after a successful remove the old value must be gone
            s2, r2 = w.propfind(w.url(p), [prop], "0", record=False)
            try:
                rs, _ = X.parse_multistatus(r2.body)
                got = rs[0].prop_text(prop)
            except Exception:
                got = None
            if got is not None and got == old and prop != X.P_DISPLAYNAME:
                self.viol(f"{meta}/{X.q(prop)}/remove-reported-200-but-value-still-served", f"{p}: remove of {prop} reported 200 but PROPFIND still returns {got!r}")
        elif s.status >= 500 or s.status == 0:
            # the outcome of a crashed request is unknown to the client: re-learn
            res.count("remove_5xx")
            self.viol(f"{meta}/{X.q(prop)}/remove-answers-{s.status}", f"{p}: PROPPATCH remove of {prop} (set to {self.model[p].get(prop)!r} before) answered {s.status}: a property can never be removed")
            self.relearn(p, kind, prop)
        self.read_all("after-remove")

    def op_ordered(self):
        """a remove and a set of the same property in one PROPPATCH: instructions apply in document order"""
        w, rng, res = self.w, self.rng, self.res
        p, kind, backend, meta = rng.choice(COLS)
        prop = rng.choice(PROPS[kind])
        v = gen_value(rng, prop, meta, allow_nl=False)
        order = rng.choice(["remove-then-set", "set-then-remove"])
        instr = [("remove", prop), ("set", prop, v)] if order == "remove-then-set" else [("set", prop, v), ("remove", prop)]
        s, r = w.call("proppatch-ordered", "PROPPATCH", w.url(p), [X.XML_CT], X.proppatch_ordered(instr))
        ok = False
        if r.status == 207:
            try:
                rs, _ = X.parse_multistatus(r.body)
                ok = bool(rs) and rs[0].prop_status(prop) == 200
            except X.MalformedXML:
                ok = False
        self.log.append({"op": order, "col": p, "prop": prop, "value": v, "http": s.status, "ok": ok})
        res.evaluations += 1
        res.count("ordered_proppatches")
        res.count("ordered_proppatch:%s:%s" % (order, "200" if ok else s.status))
        if ok:
            if order == "remove-then-set":
                self.model[p][prop] = v
                self.removed[p].pop(prop, None)
                self.provenance[p][prop] = "PROPPATCH remove-then-set in one request"
            else:
                self.model[p].pop(prop, None)
                self.removed[p][prop] = v
        elif s.status >= 500 or s.status == 0:
            self.relearn(p, kind, prop)
        self.read_all("after-" + order)

    def op_locked(self):
        """a property set while another git process holds the index lock of a tree-git collection: it is either
        refused or stored - an answer of 200 is a promise"""
        import os
        w, rng, res = self.w, self.rng, self.res
        cands = [c for c in COLS if c[2] == "tree"]
        if not cands:
            return
        p, kind, backend, meta = rng.choice(cands)
        lock = os.path.join(w.fs_path(p), ".git", "index.lock")
        if os.path.exists(lock) or not os.path.isdir(os.path.dirname(lock)):
            return
        prop = rng.choice(PROPS[kind])
        v = gen_value(rng, prop, meta, allow_nl=False)
        open(lock, "wb").close()
        try:
            s, r, results = w.proppatch(p, sets=[(prop, v)])
        finally:
            try:
                os.unlink(lock)
            except FileNotFoundError:
                pass
        st = results.get(prop)
        self.log.append({"op": "set-while-index-locked", "col": p, "prop": prop, "value": v, "http": s.status, "propstat": st})
        res.evaluations += 1
        res.count("sets_while_locked")
        res.count("set_while_locked_status:%s" % (st if st is not None else "http-%s" % s.status))
        if st == 200:
            self.model[p][prop] = v
            self.removed[p].pop(prop, None)
            self.provenance[p][prop] = "PROPPATCH while .git/index.lock was held by another process"
        self.read_all("after-set-while-locked")

    def relearn(self, p, kind, prop):
        s2, r2 = self.w.propfind(self.w.url(p), [prop], "0", record=False)
        try:
            rs, _ = X.parse_multistatus(r2.body)
            got = rs[0].prop_text(prop)
        except Exception:
            got = None
        if got is None:
            self.model[p].pop(prop, None)

    def op_unsettable(self):
        w, rng, res = self.w, self.rng, self.res
        p, kind, backend, meta = rng.choice(COLS)
        prop = rng.choice(NOT_SETTABLE[kind])
        s, r, results = w.proppatch(p, sets=[(prop, "attempt")])
        st = results.get(prop)
        self.log.append({"op": "set-unsettable", "col": p, "prop": prop, "http": s.status, "propstat": st})
        res.count("unsettable_attempts")
        if st == 200:
            s2, r2 = w.propfind(w.url(p), [prop], "0", record=False)
            try:
                rs, _ = X.parse_multistatus(r2.body)
                got = rs[0].prop_text(prop)
            except Exception:
                got = None
            if got != "attempt":
                self.viol(f"{meta}/{X.q(prop)}/protected-set-reported-200-without-effect", f"{p}: set of {prop} reported 200 but reads back {got!r}")
        self.read_all("after-unsettable")

    def op_restart(self):
        self.w.restart()
        self.log.append({"op": "restart"})
        self.res.count("restarts")
        self.read_all("after-restart")

    def op_other(self):
        """other changes: a member write"""
        w, rng = self.w, self.rng
        p, kind, backend, meta = rng.choice(COLS)
        ext = ".ics" if kind == "calendar" else ".vcf"
        nm = "m%d%s" % (rng.randint(1, 2), ext)
        uid = "c15-" + nm
        body = gen.ical(rng, uid, "t", rich=False) if kind == "calendar" else gen.vcard(rng, uid, "t", rich=False)
        s, r = w.put(p, nm, body)
        self.log.append({"op": "put-member", "col": p, "name": nm, "status": s.eff})
        if W.World.success(s.eff):
            st, et, b, _ = w.fetch(p, nm)
            self.members.setdefault(p, {})[nm] = (b, et)
        self.read_all("after-member-write")


def run_shard(args):
    res = common.Result()
    rng = random.Random(args["seed"])
    base = common.mkscratch("c15")
    w = W.World(base, fe_kind=args["fe"], prefix=args.get("prefix", "/"), seed=args["seed"])
    w.res = res
    try:
        w.start()
        w.stop()
        w.provision_bare("/user/calendars/barecal/", "calendar", meta="gitconfig")
        w.provision_bare("/user/contacts/bareab/", "addressbook", meta="file")
        w.start()
        cfg = {k: args[k] for k in ("fe", "prefix", "seed", "ops")}
        run = Runner(w, res, rng, cfg)
        # creation with initial properties (MKCALENDAR / extended MKCOL)
        v1 = gen_value(rng, X.P_DISPLAYNAME, "file", False)
        v2 = gen_value(rng, X.P_CALCOLOR, "file", False)
        s, r = w.call("mkcalendar", "MKCALENDAR", w.url("/user/calendars/cal0/"), [X.XML_CT], X.mkcalendar([(X.P_DISPLAYNAME, v1), (X.P_CALCOLOR, v2)]))
        if W.World.success(s.eff):
            # the mkcalendar-response carries one propstat per property
            # (RFC 4791 5.3.1 / RFC 5689 3: the request is atomic; a 201 whose body names no status for a property
            # reports that everything asked for was done)
            for k, v in ((X.P_DISPLAYNAME, v1), (X.P_CALCOLOR, v2)):
                st = propstat_of(r.body).get(k)
                res.count("mkcalendar_prop_status:%s" % st)
                if st == 200 or st is None:
                    run.model["/user/calendars/cal0/"][k] = v
                    run.provenance["/user/calendars/cal0/"][k] = "MKCALENDAR"
        else:
            res.inconclusive.append("MKCALENDAR with initial properties refused: %s" % s.eff)
            w.mkcol("/user/calendars/cal0/", "calendar")
        v3 = gen_value(rng, X.P_DISPLAYNAME, "file", False)
        v4 = gen_value(rng, X.P_ABDESC, "file", False)
        # the address book is created in one of the ways a client may choose: the order of the
        # properties inside the request, or typing a plain collection afterwards, must not matter
        how = rng.choice(["extended-MKCOL", "extended-MKCOL-resourcetype-last", "MKCOL+PROPPATCH-properties+PROPPATCH-resourcetype", "MKCOL+PROPPATCH-properties-and-resourcetype"])
        res.count("ab0_created_by:" + how)
        ab = "/user/contacts/ab0/"
        pairs = ((X.P_DISPLAYNAME, v3), (X.P_ABDESC, v4))
        if how.startswith("extended-MKCOL"):
            s, r = w.call("mkcol-ext", "MKCOL", w.url(ab), [X.XML_CT], X.mkcol_ext("addressbook", list(pairs), rt_last=how.endswith("last")))
            if W.World.success(s.eff):
                ok = propstat_of(r.body)
                for k, v in pairs:
                    if ok.get(k, 200) == 200:
                        run.model[ab][k] = v
                        run.provenance[ab][k] = how
            else:
                res.inconclusive.append("extended MKCOL refused: %s" % s.eff)
                w.mkcol(ab, "addressbook")
        else:
            s, r = w.call("mkcol", "MKCOL", w.url(ab), [], None)
            # addressbook-description only exists on address books: the display name goes first, the description after the type
            if how == "MKCOL+PROPPATCH-properties+PROPPATCH-resourcetype":
                s1, r1, results = w.proppatch(ab, sets=[(X.P_DISPLAYNAME, v3)])
                if results.get(X.P_DISPLAYNAME) == 200:
                    run.model[ab][X.P_DISPLAYNAME] = v3
                    run.provenance[ab][X.P_DISPLAYNAME] = how
                s2, r2 = w.call("proppatch-resourcetype", "PROPPATCH", w.url(ab), [X.XML_CT], X.proppatch_resourcetype("addressbook"))
            else:
                s2, r2 = w.call("proppatch-resourcetype", "PROPPATCH", w.url(ab), [X.XML_CT], X.proppatch_resourcetype("addressbook", [(X.P_DISPLAYNAME, v3)]))
                try:
                    rs2, _ = X.parse_multistatus(r2.body)
                    if rs2 and rs2[0].prop_status(X.P_DISPLAYNAME) == 200:
                        run.model[ab][X.P_DISPLAYNAME] = v3
                        run.provenance[ab][X.P_DISPLAYNAME] = how
                except X.MalformedXML:
                    pass
            s3, r3, results = w.proppatch(ab, sets=[(X.P_ABDESC, v4)])
            if results.get(X.P_ABDESC) == 200:
                run.model[ab][X.P_ABDESC] = v4
                run.provenance[ab][X.P_ABDESC] = how
            o = w.audit_col(ab)
            if X.P_RT_AB not in (o.get("rt") or []):
                res.inconclusive.append("typing a plain collection as address book by PROPPATCH did not work: %r" % (o.get("rt"),))
        run.log.append({"op": "create-with-props", "cal0": [v1, v2], "ab0": [v3, v4]})
        run.read_all("after-create")
        ops = [("set", 10), ("set_multi", 3), ("remove", 2), ("unsettable", 1), ("restart", 0.6), ("other", 1.5), ("ordered", 2), ("locked", 1.2)]
        for i in range(args["ops"]):
            op = rng.choices([o for o, _ in ops], [x for _, x in ops])[0]
            getattr(run, "op_" + op)()
        run.op_restart()
        res.sample({"config": cfg, "ops": run.log[:8]})
    except Exception:
        res.inconclusive.append("harness exception: " + traceback.format_exc()[-1500:])
    finally:
        w.stop()
        common.rmtree(base)
    return res


def check(tier, seed, t0):
    th = tier == "thorough"
    shards = []
    for i in range(12 if not th else 16):
        shards.append({"fe": ["wsgi", "aio"][i % 2], "prefix": "/" if (i // 2) % 2 == 0 else "/dav/", "seed": seed * 100 + i, "ops": 70 if not th else 800})
    results, failures = common.run_shards("vf.props.c15", shards, timeout_s=300 if not th else 2400)
    merged = common.merge(results)
    c = merged["counters"]
    k = 1 if not th else 10
    guards = [("sets", c.get("sets", 0), 300 * k), ("sets reported 200", c.get("sets_ok", 0), 300 * k), ("value comparisons after read-back", c.get("value_comparisons", 0), 3000 * k),
              ("restarts", c.get("restarts", 0), 12), ("address books typed after their properties were set", sum(v for k_, v in c.items() if k_.startswith("ab0_created_by:") and k_ != "ab0_created_by:extended-MKCOL"), 3), ("removes", c.get("removes", 0), 50 * k), ("removes reported 200", c.get("removes_ok", 0), 40 * k), ("reads of a removed property", c.get("removed_value_checks", 0), 200 * k),
              ("PROPPATCH requests with a remove and a set of one property", c.get("ordered_proppatches", 0), 40 * k), ("property sets while the index lock was held", c.get("sets_while_locked", 0), 15 * k), ("PROPPATCH requests setting several properties", c.get("multi_sets", 0), 80 * k)]
    for f in ("percent", "hash", "backslash", "dquote", "bracket", "equals", "colon", "nonascii", "plain", "unicode-line-separator"):
        guards.append(("successful sets with feature " + f, c.get("sets_ok:" + f, 0), 3))
    return common.finish(PROP, tier, seed, "exploration", merged, failures, RULE, t0, guards=guards,
                         assumptions=["a set counts as successful iff its propstat is 200", "values have no leading/trailing white space and no CR; ';' is not generated for the git-config back end"])


def replay(path):
    import json
    rp = json.load(open(path))
    cfg = rp["witness"]["config"]
    res = run_shard(dict(cfg))
    for v in res.violations:
        print("VIOLATION property=%s replay=%s" % (PROP, path))
        print("  sig=%s :: %s" % (v["sig"], v["msg"][:300]))
    return 1 if res.violations else 0


# (what later rounds of seeded changes added to the workload; part of the evidence's description of the check)
RULE += "; " + 'values with U+2028 / U+2029 / U+0085; a 201 of MKCALENDAR / extended MKCOL without a status for a requested property counts as success for it'
