"""C05  Concurrent writes behave as if executed one after another."""
import hashlib
import itertools
import json
import os
import random
import shutil
import subprocess
import time
import traceback

from vf import common, gen, icl, storedrv, sched

PROP = "C05"
RULE = ("controlled scheduling of the real store code: two (thorough: also three) store operations run in threads of which exactly one runs at a time; yield points are audit events "
        "on mutable shared files below the store (refs, HEAD, index, *.lock, working-tree files, metadata; immutable objects excluded) and, when the threads share one store "
        "object, line events inside import_one / _check_duplicate / _scan_uids / _import_one / delete_one; enumerated: every schedule with one pre-emption (thorough: two) for "
        "every pair from {put new c, put new d with c's UID, conditional put a (two bodies), unconditional put a, put b, conditional delete a, delete a, delete b, set displayname} "
        "on a pre-state {a, b}, on tree-git and bare-git, with one shared store object (threads of one server) and with one store object per thread (processes); oracle: the same "
        "operations executed sequentially in every order on copies of the pre-state (operations that returned LockedError removed) - results and final contents must equal one of "
        "them; after every serialisable race two more puts (a new name with c's UID, a new name with a's UID) are issued through the store objects that took part and must answer "
        "as they do after the matching sequential execution (a store object left stale by the race shows here); plus UID uniqueness, git fsck, linear history, index == HEAD; thorough adds an HTTP stress run with delay injection and a per-name linearisability check; "
        "distinct = distinct interleavings (hash of the (thread, yield) sequence)")

OPS = ["put_new_c", "put_new_d_same_uid", "put_a_cond1", "put_a_cond2", "put_a_uncond", "put_b", "del_a_cond", "del_a", "del_b", "set_name", "get_a"]
QUICK_PAIRS = [("put_a_cond1", "put_a_cond2"), ("put_new_c", "put_new_d_same_uid"), ("put_a_uncond", "put_b"), ("put_a_cond1", "del_a_cond"), ("put_b", "del_a"), ("put_new_c", "put_b"),
               ("del_a_cond", "del_a"), ("put_a_cond1", "put_b"), ("set_name", "put_b"), ("del_a", "del_b"), ("put_a_uncond", "del_a"), ("put_new_c", "del_b"), ("set_name", "put_new_c"),
               ("put_a_cond1", "put_a_uncond"), ("get_a", "put_a_uncond"), ("get_a", "del_a")]


def sha(b):
    return hashlib.sha256(b).hexdigest()[:12]


def bodies(rng):
    return {
        "a0": gen.ical(rng, "uid-a", "A0", rich=False), "b0": gen.ical(rng, "uid-b", "B0", rich=False),
        "a1": gen.ical(rng, "uid-a", "A1", rich=False), "a2": gen.ical(rng, "uid-a", "A2", rich=False), "a3": gen.ical(rng, "uid-a", "A3", rich=False),
        "b1": gen.ical(rng, "uid-b", "B1", rich=False), "c": gen.ical(rng, "uid-c", "C", rich=False), "d": gen.ical(rng, "uid-c", "D", rich=False),
        "e": gen.ical(rng, "uid-c", "E", rich=False), "f": gen.ical(rng, "uid-a", "F", rich=False), "g": gen.ical(rng, "uid-a", "G", rich=False),
    }


# operations executed strictly after the concurrent ones returned, through the store objects
# that took part in the race: their answers too must be those of a sequential execution
# (the two puts with a's UID come first and go through different store objects: the second one is issued by a store
# object that may not have looked at the collection since before the race)
FOLLOWUPS = [("a.ics", "a1", "conditional-put-of-a-with-its-etag-from-before-the-race"), ("f.ics", "f", "put-new-name-with-uid-of-a"), ("g.ics", "g", "put-another-new-name-with-uid-of-a"), ("e.ics", "e", "put-new-name-with-uid-of-c")]


# two orders of issuing them: with the conditional put first every participating store object looks at the collection
# again before the UID puts; with the UID puts first one of them is issued by a store object that has not looked since
FOLLOW_ORDERS = [(0, 1, 2, 3), (1, 2, 0, 3)]


def run_followups(getters, B, shift=0, variant=0):
    """`shift` rotates which of the participating store objects issues which follow-up (with one store
    object per thread the two have seen different parts of the history); `variant` picks the order.  The answers
    are returned in the order of FOLLOWUPS."""
    out = [None] * len(FOLLOWUPS)
    for pos, k in enumerate(FOLLOW_ORDERS[variant]):
        name, b, _ = FOLLOWUPS[k]
        try:
            st = getters[(pos + shift) % len(getters)]()
            kw = {"replace_etag": B["__e0"]} if name == "a.ics" else {}
            r = ("value", ("ok", st.import_one(name, "text/calendar", [B[b]], **kw)[1]))
        except Exception as e:  # noqa
            r = ("exc", e)
        out[k] = outcome(r)[0]
    return tuple(out)


def make_op(name, st, B, e0):
    def imp(n, body, **kw):
        return lambda: ("ok", st().import_one(n, "text/calendar", [B[body]], **kw)[1])
    if name == "put_new_c":
        return imp("c.ics", "c")
    if name == "put_new_d_same_uid":
        return imp("d.ics", "d")
    if name == "put_a_cond1":
        return imp("a.ics", "a1", replace_etag=e0)
    if name == "put_a_cond2":
        return imp("a.ics", "a2", replace_etag=e0)
    if name == "put_a_uncond":
        return imp("a.ics", "a3")
    if name == "put_b":
        return imp("b.ics", "b1")
    if name == "del_a_cond":
        return lambda: ("ok", st().delete_one("a.ics", etag=e0))
    if name == "del_a":
        return lambda: ("ok", st().delete_one("a.ics"))
    if name == "del_b":
        return lambda: ("ok", st().delete_one("b.ics"))
    if name == "set_name":
        return lambda: ("ok", st().set_displayname("renamed"))
    if name == "get_a":
        # a read by name (the store looks the current etag up itself); the value tells which version was read
        def get_a():
            try:
                return ("ok", sha(b"".join(st().get_file("a.ics", "text/calendar").content)))
            except KeyError:
                return ("ok", "no-such-item")      # get_file's documented answer for a missing item
        return get_a
    raise ValueError(name)


def outcome(r):
    kind, v = r
    if kind == "value":
        return ("ok", v[1] if isinstance(v[1], str) else None)
    if kind == "deadlock":
        return ("DEADLOCK", None)
    return (storedrv.classify(v), None)


def final_state(backend, path):
    st = storedrv.open_store(backend, path)
    out = {}
    uids = {}
    for name, ct, etag in st.iter_with_etag():
        body = b"".join(st.get_file(name, ct, etag).content)
        out[name] = sha(body)
        try:
            u = icl.calendar_uid(icl.parse_calendar(body))
            uids.setdefault(u, []).append(name)
        except icl.ICLError:
            out[name] = "UNPARSEABLE"
    try:
        dn = st.get_displayname()
    except Exception as e:
        dn = "EXC:" + type(e).__name__
    return {"members": out, "displayname": dn}, {u: n for u, n in uids.items() if len(n) > 1}


class Scenario:
    def __init__(self, backend, mode, ops, base, rng, env):
        self.backend, self.mode, self.ops, self.base, self.env = backend, mode, ops, base, env
        self.pre = os.path.join(base, "pre")
        common.rmtree(self.pre)
        self.B = bodies(rng)
        st = storedrv.open_store(backend, self.pre, create=True)
        st.set_type("calendar")
        st.import_one("a.ics", "text/calendar", [self.B["a0"]])
        st.import_one("b.ics", "text/calendar", [self.B["b0"]])
        self.e0 = [e for n, c, e in st.iter_with_etag() if n == "a.ics"][0]
        self.B["__e0"] = self.e0
        del st
        self.work = os.path.join(base, "work")
        self.seq = None

    def fresh(self):
        common.rmtree(self.work)
        shutil.copytree(self.pre, self.work, symlinks=True)

    def store_factories(self, n):
        if self.mode == "shared":
            shared = storedrv.open_store(self.backend, self.work)
            return [lambda: shared] * n
        objs = [None] * n

        def mk(i):
            def get():
                if objs[i] is None:
                    objs[i] = storedrv.open_store(self.backend, self.work)
                return objs[i]
            return get
        # one store object per thread, opened before the race starts (a server process is long-running)
        fs = [mk(i) for i in range(n)]
        for f in fs:
            f()
        return fs

    def run_sequential(self, order):
        """order: tuple of op indices"""
        follow = []
        for variant in range(len(FOLLOW_ORDERS)):
            self.fresh()
            res = {}
            for i in order:
                st = storedrv.open_store(self.backend, self.work)
                op = make_op(self.ops[i], lambda st=st: st, self.B, self.e0)
                try:
                    res[i] = ("value", op())
                except Exception as e:
                    res[i] = ("exc", e)
            fin, dup = final_state(self.backend, self.work)
            st = storedrv.open_store(self.backend, self.work)
            follow.append(run_followups([lambda: st], self.B, variant=variant))
        return {i: outcome(r) for i, r in res.items()}, fin, tuple(follow)

    def sequential_spec(self):
        n = len(self.ops)
        spec = {}
        for k in range(0, n + 1):
            for subset in itertools.combinations(range(n), k):
                for order in itertools.permutations(subset):
                    spec[order] = self.run_sequential(order)
        self.seq = spec
        return spec

    def line_funcs(self):
        if self.mode != "shared":
            return None
        from xandikos.store import git as G
        fs = set()
        for cls in (G.GitStore, G.BareGitStore, G.TreeGitStore):
            for nm in ("import_one", "_check_duplicate", "_scan_uids", "_import_one", "delete_one"):
                f = cls.__dict__.get(nm)
                if f is not None:
                    fs.add(f.__code__)
        return fs

    def run_schedule(self, first, preempt):
        self.fresh()
        fac = self.store_factories(len(self.ops))
        ops = [make_op(nm, fac[i], self.B, self.e0) for i, nm in enumerate(self.ops)]
        s = sched.Scheduler(self.work, preempt=preempt, first=first, line_funcs=self.line_funcs())
        raw = s.run(ops)
        self.last_fac = fac
        return s, raw


def judge(sc, s, raw, res, cfg, sched_descr):
    outs = {i: outcome(r) for i, r in enumerate(raw)}
    tag = sc.backend
    pair = "+".join(sc.ops) + (" [threads sharing one store object]" if sc.mode == "shared" else " [one store object per thread]")
    if s.stuck or any(o[0] == "DEADLOCK" for o in outs.values()):
        res.count("schedules_discarded_blocked")
        return
    try:
        fin, dup = final_state(sc.backend, sc.work)
    except Exception as e:
        res.violation(f"{tag}/store-unreadable-after-race/{type(e).__name__}", f"[{pair}] {sched_descr}: the store cannot be read after the concurrent run: {e!r}", {"config": cfg, "trace": s.trace[-40:]})
        return
    res.count("schedules_judged")
    wit = {"config": cfg, "ops": sc.ops, "schedule": sched_descr, "results": {sc.ops[i]: o for i, o in outs.items()}, "final": fin, "trace_tail": s.trace[-60:]}
    # documented outcomes only
    for i, o in outs.items():
        if o[0].startswith("EXC:"):
            e = raw[i][1]
            res.violation(f"{tag}/{'one-after-the-other/' if sched_descr.startswith('no pre-emption') else ''}unmapped-exception/{o[0][4:]}", f"[{pair}] {sched_descr}: {sc.ops[i]} raised {o[0][4:]}: {e!r} (not one of ok / InvalidETag / DuplicateUid / NoSuchItem / Locked)", wit)
    dup_reported = False
    if dup:
        dup_reported = True
        res.violation(f"{tag}/{'one-after-the-other/' if sched_descr.startswith('no pre-emption') else ''}duplicate-uid", f"[{pair}] {sched_descr}: two live resources share a UID: {dup!r}", wit)
    locked = tuple(sorted(i for i, o in outs.items() if o[0] == "Locked"))
    live = tuple(i for i in range(len(sc.ops)) if i not in locked)
    acceptable = []
    follow_of = {}
    for order, (souts, sfin, sfollow) in sc.seq.items():
        if tuple(sorted(order)) != tuple(sorted(live)):
            continue
        acceptable.append((order, souts, sfin))
        follow_of[order] = sfollow
    ok = False
    matching = []
    for order, souts, sfin in acceptable:
        if sfin == fin and all(souts[i] == outs[i] for i in live):
            ok = True
            matching.append(order)
    if ok and getattr(sc, "last_fac", None):
        sc.nfollow = getattr(sc, "nfollow", 0) + 1
        variant = (sc.nfollow // 2) % len(FOLLOW_ORDERS)
        got = run_followups(sc.last_fac, sc.B, shift=sc.nfollow % 2, variant=variant)
        sc.last_fac = None
        res.count("followups_judged")
        res.count("followups_in_order:%d" % variant)
        exp = sorted({follow_of[o][variant] for o in matching})
        for g in got:
            res.count("followup_outcome:" + g)
        if got not in exp:
            k = [i for i in range(len(got)) if all(e[i] != got[i] for e in exp)]
            k = k[0] if k else 0
            where = "threads-sharing-one-store-object" if sc.mode == "shared" else "one-store-object-per-thread"
            res.violation(f"{tag}/{where}/operation-after-the-race/{FOLLOWUPS[k][2]}/{got[k]}-instead-of-{exp[0][k]}",
                          f"[{pair}] {sched_descr}: the concurrent operations themselves are serialisable ({matching[0]}), but operations issued after both returned, through the same "
                          f"store object(s), answer {dict(zip([f[2] for f in FOLLOWUPS], got))}; sequentially they answer {[dict(zip([f[2] for f in FOLLOWUPS], e)) for e in exp]}", wit)
    if locked:
        res.count("schedules_with_locked_refusal")
    if not ok and not any(o[0].startswith("EXC:") for o in outs.values()):
        anomaly = classify_anomaly(sc, outs, fin, acceptable)
        if anomaly == "duplicate-uid" and dup_reported:
            return fin
        if sched_descr.startswith("no pre-emption"):
            # one operation ran to completion before the other started: none of the recorded races can explain this
            anomaly = "one-after-the-other/" + anomaly
        res.violation(f"{tag}/{anomaly}", f"[{pair}] {sched_descr}: results {[(sc.ops[i], o[0]) for i, o in outs.items()]} with final members {fin['members']} equal no sequential execution of the "
                      f"non-refused operations (sequential outcomes: {[(o, {sc.ops[i]: x[0] for i, x in so.items()}) for o, so, sf in acceptable]})", wit)
    elif ok:
        res.count("schedules_serialisable")
    return fin


def classify_anomaly(sc, outs, fin, acceptable):
    names = sc.ops
    oks = [names[i] for i, o in outs.items() if o[0] == "ok"]
    if "put_new_c" in oks and "put_new_d_same_uid" in oks:
        return "duplicate-uid"
    if "del_a_cond" in oks and "del_a" in oks:
        # an item can be deleted once (the store decides that under its lock, whatever the pre-lock checks saw)
        return "same-item-deleted-twice"
    if "put_a_cond1" in oks and "put_a_cond2" in oks:
        return "double-conditional-success"
    cond = [n for n in oks if n in ("put_a_cond1", "put_a_cond2", "del_a_cond")]
    if len(cond) >= 2:
        return "double-conditional-success"
    if len(cond) == 1 and any(n in oks for n in ("put_a_uncond", "del_a")):
        # a conditional op succeeded although another op had already changed a
        return "conditional-op-succeeded-against-stale-etag"
    # lost update to a different resource: both ok, targets differ, one target unchanged
    targets = {"put_new_c": "c.ics", "put_new_d_same_uid": "d.ics", "put_a_cond1": "a.ics", "put_a_cond2": "a.ics", "put_a_uncond": "a.ics", "put_b": "b.ics", "del_a_cond": "a.ics", "del_a": "a.ics", "del_b": "b.ics"}
    ts = [targets.get(n) for n in oks]
    if len(oks) >= 2 and len(set(ts)) == len(ts):
        return "lost-update-other-resource"
    if "set_name" in oks:
        return "lost-update-metadata-vs-member"
    return "not-serialisable/" + "+".join(sorted(names))


def fsck_slug(text):
    """first error line of git fsck, reduced to a mechanism slug (paths and ids removed)"""
    import re
    for ln in text.splitlines():
        ln = ln.strip()
        if ln.startswith(("fatal:", "error:", "missing", "broken", "dangling") ) or "error" in ln:
            ln = re.sub(r"[0-9a-f]{40}", "", ln)
            ln = re.sub(r"\S*/\S*", "", ln)
            return re.sub(r"[^a-z]+", "-", ln.lower()).strip("-")[:60] or "unknown"
    return "unknown"


def integrity(sc, res, cfg, descr):
    if sc.backend == "vdir":
        return
    r = subprocess.run(["git", "-C", sc.work, "fsck", "--connectivity-only"], capture_output=True, text=True, env=sc.env, timeout=60)
    res.count("fsck_runs")
    tag = sc.backend
    if r.returncode != 0:
        res.violation(f"{tag}/git-fsck-error-after-race/{fsck_slug(r.stdout + r.stderr)}", f"[{'+'.join(sc.ops)}] {descr}: {(r.stdout + r.stderr)[:300]}", {"config": cfg})
    r = subprocess.run(["git", "-C", sc.work, "rev-list", "--parents", "HEAD"], capture_output=True, text=True, env=sc.env, timeout=60)
    if r.returncode == 0:
        for ln in r.stdout.splitlines():
            if len(ln.split()) > 2:
                res.violation(f"{tag}/non-linear-history-after-race", f"[{'+'.join(sc.ops)}] {descr}: merge commit {ln}", {"config": cfg})
    if sc.backend == "tree":
        r = subprocess.run(["git", "-C", sc.work, "diff-index", "--cached", "--quiet", "HEAD"], capture_output=True, text=True, env=sc.env, timeout=60)
        res.count("index_head_checks")
        if r.returncode != 0:
            res.violation(f"{tag}/index-differs-from-head-after-race", f"[{'+'.join(sc.ops)}] {descr}: git diff-index --cached HEAD reports differences (index and HEAD commit disagree)", {"config": cfg})
        # the working tree is what delete_one / a plain git user reads: it must agree with the index
        r = subprocess.run(["git", "-C", sc.work, "status", "--porcelain", "--untracked-files=all"], capture_output=True, text=True, env=sc.env, timeout=60)
        res.count("worktree_checks")
        lines = [ln for ln in r.stdout.splitlines() if not ln.endswith(".lock")]
        if r.returncode == 0 and lines:
            kinds = sorted({ln[:2].strip() or "?" for ln in lines})
            res.violation(f"{tag}/working-tree-differs-from-index-after-race/{'+'.join(kinds)}", f"[{'+'.join(sc.ops)}] {descr}: git status --porcelain: {lines[:6]!r}", {"config": cfg})


def run_realtime(args, res):
    """three writers on one store object (threads of one server process), two pre-emptions, judged with real-time order:
    A (put b) is pre-empted inside its UID scan, B (create c, UID u) then runs from start to end and is answered,
    only then C (create d, same UID u) starts, is pre-empted somewhere before its write while A runs to its end, and
    finishes.  B was answered before C began, so in every legal order B precedes C and C must be refused as a duplicate
    - whatever A did in between.  (The serialisability judgement of the pair schedules cannot say this: there c and d
    overlap, and both succeeding is the known check-before-lock finding.)"""
    rng = random.Random(args["seed"])
    base = common.mkscratch("c05r")
    env = common.worker_env({"HOME": os.path.join(base, "home")})
    os.environ["HOME"] = os.path.join(base, "home")
    os.makedirs(os.environ["HOME"], exist_ok=True)
    import logging
    logging.disable(logging.CRITICAL)
    t_end = time.monotonic() + args.get("budget_s", 200)
    IN_SCAN = ("line:_scan_uids", "line:_check_duplicate", "line:import_one", "open:", "os.")
    try:
        for backend in args["backends"]:
            ops = ["put_new_d_same_uid", "put_b", "put_new_c"]      # thread 0 = C, 1 = A, 2 = B
            cfg = {"backend": backend, "mode": "realtime", "ops": ops, "seed": args["seed"], "depth": 2}
            sc = Scenario(backend, "shared", ops, base, rng, env)
            s0, raw0 = sc.run_schedule(1, {})
            a_yields = [i for i, (t, g) in enumerate(s0.trace) if t == 1]
            # A's yields come first in the trace when it runs first
            a_yields = [i for i in a_yields if i < len(a_yields) and s0.trace[i][1].startswith(("line:_scan_uids", "line:_check_duplicate"))]
            res.count("realtime_first_preemption_points", len(a_yields))
            step2 = args.get("step2", 1)
            for k1 in a_yields[::args.get("step1", 1)]:
                if time.monotonic() > t_end:
                    res.inconclusive.append("time budget exhausted in the three-writer schedules")
                    break
                s1, raw1 = sc.run_schedule(1, {k1: 2})
                if s1.stuck:
                    continue
                tr = s1.trace
                b_idx = [i for i, (t, g) in enumerate(tr) if t == 2]
                c_idx = [i for i, (t, g) in enumerate(tr) if t == 0]
                if not b_idx or not c_idx or min(c_idx) < max(b_idx):
                    res.count("realtime_schedules_without_the_order_wanted")
                    continue
                k2s = [i for i in c_idx if tr[i][1].startswith(IN_SCAN)][::step2]
                for k2 in k2s:
                    s2, raw2 = sc.run_schedule(1, {k1: 2, k2: 1})
                    if s2.stuck or any(r is None for r in raw2):
                        res.count("schedules_discarded_blocked")
                        continue
                    outs = {i: outcome(r) for i, r in enumerate(raw2)}
                    tr2 = s2.trace
                    b2 = [i for i, (t, g) in enumerate(tr2) if t == 2]
                    c2 = [i for i, (t, g) in enumerate(tr2) if t == 0]
                    res.evaluations += 1
                    res.count("realtime_schedules_judged")
                    res.distinct.add(common.h(backend, "realtime", tr2[k1][1] if k1 < len(tr2) else "", tr2[k2][1] if k2 < len(tr2) else ""))
                    if not b2 or not c2 or min(c2) < max(b2):
                        continue
                    if outs[2][0] == "ok":
                        res.count("realtime_first_create_answered_ok")
                    if outs[2][0] == "ok" and outs[0][0] == "ok":
                        fin, dup = final_state(backend, sc.work)
                        res.violation(f"{backend}/threads-sharing-one-store-object/duplicate-uid/second-create-began-after-the-first-was-answered",
                                      f"[three writers on one store object] put b pre-empted at {tr2[k1][1]}; create c (UID u) ran from start to end and was answered ok; then create d (same UID) began, was "
                                      f"pre-empted at {tr2[k2][1]} while put b finished, and was answered ok too: live resources sharing a UID: {dup!r}", {"config": cfg, "k1": k1, "k2": k2, "trace_tail": tr2[-40:]})
                    elif outs[0][0] not in ("DuplicateUid", "ok", "Locked") and outs[0][0].startswith("EXC:"):
                        res.count("realtime_second_create_raised:" + outs[0][0])
    except Exception:
        res.inconclusive.append("harness exception: " + traceback.format_exc()[-1500:])
    finally:
        common.rmtree(base)
    return res


def run_shard(args):
    res = common.Result()
    if args.get("mode") == "http":
        return run_http(args, res)
    if args.get("mode") == "realtime":
        return run_realtime(args, res)
    rng = random.Random(args["seed"])
    base = common.mkscratch("c05")
    env = common.worker_env({"HOME": os.path.join(base, "home")})
    os.environ["HOME"] = os.path.join(base, "home")
    os.makedirs(os.environ["HOME"], exist_ok=True)
    import logging
    logging.disable(logging.CRITICAL)
    t_end = time.monotonic() + args.get("budget_s", 200)
    try:
        for (backend, mode, ops) in args["scenarios"]:
            cfg = {"backend": backend, "mode": mode, "ops": list(ops), "seed": args["seed"], "depth": args["depth"]}
            sc = Scenario(backend, mode, list(ops), base, rng, env)
            sc.sequential_spec()
            res.count("scenarios")
            n = len(ops)
            # baseline runs: count the yield points of each thread when it runs first
            counts = {}
            for first in range(n):
                s, raw = sc.run_schedule(first, {})
                judge(sc, s, raw, res, cfg, f"no pre-emption, thread {first} first")
                counts[first] = sum(1 for (t, _) in s.trace if t == first)
                res.count("yield_points", len(s.trace))
            nsched = 0
            for first in range(n):
                others = [t for t in range(n) if t != first]
                for i in range(counts[first]):
                    for tgt in others:
                        if time.monotonic() > t_end:
                            res.inconclusive.append("time budget exhausted during enumeration")
                            raise StopIteration
                        pre = {i: tgt}
                        s, raw = sc.run_schedule(first, pre)
                        descr = f"thread {first} ({ops[first]}) pre-empted at its yield #{i} ({s.trace[i][1] if i < len(s.trace) else '?'}) by thread {tgt} ({ops[tgt]})"
                        judge(sc, s, raw, res, cfg, descr)
                        res.evaluations += 1
                        nsched += 1
                        res.distinct.add(common.h(backend, mode, ops, [(t, g.split(":")[0]) for t, g in s.trace]))
                        if nsched % 7 == 0:
                            integrity(sc, res, cfg, descr)
                        if args["depth"] >= 2:
                            # second pre-emption while the other thread runs
                            njs = [k for k, (t, _) in enumerate(s.trace) if t == tgt and k > i]
                            step = max(1, len(njs) // args.get("second_samples", 6))
                            for j in njs[::step]:
                                pre2 = {i: tgt, j: first}
                                s2, raw2 = sc.run_schedule(first, pre2)
                                d2 = descr + f", which is pre-empted back at global yield #{j} ({s2.trace[j][1] if j < len(s2.trace) else '?'})"
                                judge(sc, s2, raw2, res, cfg, d2)
                                res.evaluations += 1
                                res.distinct.add(common.h(backend, mode, ops, [(t, g.split(":")[0]) for t, g in s2.trace]))
            res.count("schedules", nsched)
            if len(res.samples) < 2:
                s, raw = sc.run_schedule(0, {3: 1})
                res.sample({"config": cfg, "example_schedule_trace": s.trace[:40], "results": [outcome(r)[0] for r in raw]})
    except StopIteration:
        pass
    except Exception:
        res.inconclusive.append("harness exception: " + traceback.format_exc()[-1500:])
    finally:
        common.rmtree(base)
    return res


# ---------------------------------------------------------------- HTTP stress with delay injection

def run_http(args, res):
    import threading
    from vf import world as W, davxml as X
    rng = random.Random(args["seed"])
    base = common.mkscratch("c05h")
    w = W.World(base, fe_kind="aio", prefix="/", seed=args["seed"], agent={"log": None, "delay_ms": 3, "delay_seed": args["seed"], "only_threads": False})
    w.res = res
    try:
        w.start()
        if args["backend"] == "bare":
            w.stop()
            w.provision_bare("/user/calendars/race/", "calendar", meta="gitconfig")
            w.start()
        else:
            w.mkcol("/user/calendars/race/", "calendar")
        col = "/user/calendars/race/"
        names = ["r0.ics", "r1.ics", "r2.ics"]
        hist = []
        lock = threading.Lock()
        stop_at = time.monotonic() + args["seconds"]

        def client(cid):
            r = random.Random(args["seed"] * 100 + cid)
            k = 0
            etags = {}
            while time.monotonic() < stop_at:
                k += 1
                nm = r.choice(names)
                tok = "H%dx%dz" % (cid, k)
                kind = r.choice(["put-cond", "put-cond", "put", "get", "delete-cond"])
                hs = []
                body = None
                if kind == "get":
                    method = "GET"
                elif kind == "delete-cond":
                    if nm not in etags:
                        continue
                    method, hs = "DELETE", [("If-Match", etags[nm])]
                else:
                    method = "PUT"
                    body = gen.ical(r, "uid-" + nm, tok, rich=False)
                    hs = [("Content-Type", "text/calendar")]
                    if kind == "put-cond":
                        hs.append(("If-Match", etags[nm]) if nm in etags else ("If-None-Match", "*"))
                t0 = time.monotonic()
                from vf import fe as FE
                resp = FE.raw_http(w.fe.addr, method, w.url(col, nm), hs, body, timeout=20)
                t1 = time.monotonic()
                eff, err = X.effective_status(method, resp)
                et = resp.header("ETag")
                seen_tok = None
                if method == "GET" and resp.status == 200:
                    import re
                    m = re.search(rb"H\d+x\d+z", resp.body)
                    seen_tok = m.group(0).decode() if m else None
                    if et:
                        etags[nm] = et
                if method == "PUT" and eff in (201, 204) and et:
                    etags[nm] = et
                if method == "DELETE" and eff == 204:
                    etags.pop(nm, None)
                with lock:
                    hist.append({"c": cid, "name": nm, "kind": kind, "tok": tok if method == "PUT" else None, "cond": dict(hs).get("If-Match") or dict(hs).get("If-None-Match"), "t0": t0, "t1": t1,
                                 "status": eff, "etag": et, "seen": seen_tok, "broken": resp.broken})
        ths = [threading.Thread(target=client, args=(i,)) for i in range(args["clients"])]
        for t in ths:
            t.start()
        for t in ths:
            t.join()
        res.evaluations += len(hist)
        res.count("http_ops", len(hist))
        # ---- checks on the history
        # (1) every conditional write that succeeded names, through its If-Match etag, the version it replaced;
        #     two successful conditional writes must never replace the same version of the same name
        replaced = {}
        etag_writer = {}
        for h in hist:
            if h["kind"] in ("put", "put-cond") and h["status"] in (201, 204) and h["etag"]:
                etag_writer.setdefault((h["name"], h["etag"]), []).append(h)
        for h in hist:
            if h["status"] in (201, 204) and h["kind"] in ("put-cond", "delete-cond") and h["cond"] and h["cond"] != "*":
                key = (h["name"], h["cond"])
                replaced.setdefault(key, []).append(h)
        res.count("conditional_successes", sum(len(v) for v in replaced.values()))
        for key, hs in replaced.items():
            # the same etag value can legitimately exist twice only if the same bytes were written twice (unique tokens: never)
            if len(hs) > 1:
                res.violation(f"{args['backend']}/double-conditional-success", "[HTTP stress] " + f"{len(hs)} conditional requests against {key[0]} with If-Match {key[1]} all succeeded: {[(x['c'], x['kind'], x['status']) for x in hs]}",
                              {"history": [x for x in hist if x["name"] == key[0]][-30:]})
        # (2) reads return only values that were written, and never go back in per-client time order past an acknowledged overwrite
        written = {h["tok"] for h in hist if h["tok"]}
        for h in hist:
            if h["seen"] and h["seen"] not in written:
                res.violation(f"{args['backend']}/read-of-never-written-value", "[HTTP stress] " + f"GET {h['name']} returned token {h['seen']}")
        for h in hist:
            if h["status"] and h["status"] >= 500:
                res.count("http_5xx")
                res.count("http_5xx:%s" % h["kind"])
            res.count("http_status:%s" % h["status"])
        # (3) final state is readable and fsck clean
        w.stop()
        fsp = w.fs_path(col)
        r = subprocess.run(["git", "-C", fsp, "fsck", "--connectivity-only"], capture_output=True, text=True, env=w._git_env(), timeout=120)
        if r.returncode != 0:
            res.violation(f"{args['backend']}/git-fsck-error-after-race/{fsck_slug(r.stdout + r.stderr)}", "[HTTP stress] " + (r.stdout + r.stderr)[:300])
        res.seen("http", args["backend"], len(hist))
        res.seen("http2", args["backend"], len(replaced))
        res.sample({"config": {k: v for k, v in args.items()}, "history_head": hist[:8]})
    except Exception:
        res.inconclusive.append("harness exception: " + traceback.format_exc()[-1500:])
    finally:
        w.stop()
        common.rmtree(base)
    return res


def check(tier, seed, t0):
    th = tier == "thorough"
    scs = []
    pairs = QUICK_PAIRS if not th else [p for p in itertools.combinations(OPS, 2)]
    for backend in ("tree", "bare"):
        for mode in ("separate", "shared"):
            for p in pairs:
                scs.append((backend, mode, p))
    if th:
        for backend in ("tree", "bare"):
            for tr in [("put_a_cond1", "put_a_cond2", "put_b"), ("put_new_c", "put_new_d_same_uid", "del_a"), ("put_a_uncond", "put_b", "del_a_cond")]:
                scs.append((backend, "separate", tr))
    n = 16
    shards = [{"seed": seed * 100 + i, "scenarios": scs[i::n], "depth": 1 if not th else 2, "second_samples": 5, "budget_s": 200 if not th else 2400} for i in range(n)]
    if th:
        for i, b in enumerate(["tree", "bare"]):
            shards.append({"mode": "http", "backend": b, "seed": seed * 100 + 80 + i, "clients": 8, "seconds": 60})
    for i, b in enumerate(["tree", "bare"]):
        shards.append({"mode": "realtime", "backends": [b], "seed": seed * 100 + 90 + i, "budget_s": 150 if not th else 1500, "step1": 2 if not th else 1, "step2": 3 if not th else 1})
    results, failures = common.run_shards("vf.props.c05", shards, timeout_s=400 if not th else 3000)
    merged = common.merge(results)
    c = merged["counters"]
    guards = [("scenarios", c.get("scenarios", 0), int(len(scs) * 0.95)), ("schedules judged", c.get("schedules_judged", 0), 3000 if not th else 30000),
              ("schedules equal to a sequential execution", c.get("schedules_serialisable", 0), 2000 if not th else 20000),
              ("schedules with a LockedError refusal", c.get("schedules_with_locked_refusal", 0), 50), ("fsck runs", c.get("fsck_runs", 0), 300),
              ("operations issued after a race and judged", c.get("followups_judged", 0), 2000 if not th else 20000),
              ("three-writer schedules judged with real-time order (second create begins after the first was answered)", c.get("realtime_schedules_judged", 0), 300 if not th else 2000), ("of which refused as duplicate UID", c.get("followup_outcome:DuplicateUid", 0), 500)]
    disc = c.get("schedules_discarded_blocked", 0)
    return common.finish(PROP, tier, seed, "exploration", merged, failures, RULE, t0, guards=guards,
                         extra_cov={"schedules_discarded_as_blocked": disc, "distinct_interleavings": len(merged["distinct"])},
                         assumptions=["pre-emption happens only at the yield points listed (audit events on mutable shared files; line events in the five store functions for shared objects)",
                                      "at most one (thorough: two) pre-emptions per schedule", "the sequential executions of the real code on copies of the pre-state are the specification"])


def replay(path):
    rp = json.load(open(path))
    cfg = rp["witness"]["config"]
    res = run_shard({"seed": cfg["seed"], "scenarios": [(cfg["backend"], cfg["mode"], cfg["ops"])], "depth": cfg.get("depth", 1), "budget_s": 600})
    for v in res.violations:
        print("VIOLATION property=%s replay=%s" % (PROP, path))
        print("  sig=%s :: %s" % (v["sig"], v["msg"][:300]))
    return 1 if res.violations else 0


# (what later rounds of seeded changes added to the workload; part of the evidence's description of the check)
RULE += "; " + 'follow-up operations issued in two orders; three writers on one store object with real-time order (one create answered before the other with the same UID begins: the second must be refused)'
