"""Common plan/check scaffolding for history-based properties."""
from vf import common, histrun


def plan(tier, seed, quick=(12, 100, 1), thorough=(16, 150, 6), extra=None, cfgs=None):
    n, steps, hist = quick if tier == "quick" else thorough
    cfgs = cfgs or [("wsgi", "/"), ("aio", "/"), ("wsgi", "/dav/"), ("aio", "/dav/")]
    shards = []
    for i in range(n):
        fe, prefix = cfgs[i % len(cfgs)]
        a = {"fe": fe, "prefix": prefix, "seed": seed * 100 + i, "steps": steps, "histories": hist, "bare": True, "budget_s": 150 if tier == "quick" else 1500}
        if extra:
            a.update(extra)
        shards.append(a)
    return shards


def run(module, shards, tier):
    results, failures = common.run_shards(module, shards, timeout_s=300 if tier == "quick" else 3000)
    return common.merge(results), failures
