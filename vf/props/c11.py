"""C11  calendar-query returns exactly the resources that match the filter."""
import itertools
import os
import random
import traceback
from datetime import datetime, timedelta, timezone
from zoneinfo import ZoneInfo

from vf import common, gen, icl, world as W, davxml as X, caloracle as O

PROP = "C11"
RULE = ("(a) the RFC 4791 section 9.9 tables exhaustively: VEVENT {DTEND, DURATION>0, DURATION=0, neither} x DTSTART {UTC, floating, TZID, DATE}; VTODO 8 rows; VJOURNAL 3; "
        "VFREEBUSY 3; all uploaded into one calendar and queried with time-ranges whose start/end are taken from {instant-1s, instant, instant+1s} of every key instant of the "
        "targeted object (plus open-ended ranges), with and without a CALDAV:timezone (Europe/Amsterdam, Pacific/Auckland, America/New_York) for floating values; every query is "
        "judged against all objects of the batch by vf/caloracle.py; (b) generated comp/prop/param filter trees (presence, is-not-defined, text-match x collation x negate, "
        "param-filter, property time-range, nested VALARM, VTIMEZONE) over generated objects; result set must equal the oracle's and calendar-data must equal the GET body; "
        "distinct = distinct (row or feature set, boundary relation, verdict) tuples")

# far from any DST transition of the zones used
T0 = datetime(2024, 5, 15, 12, 0, 0, tzinfo=timezone.utc)
TZS = [None, "Europe/Amsterdam", "Pacific/Auckland", "America/New_York"]


def fmt(dt, kind, tzid="Europe/Amsterdam"):
    """render instant `dt` (UTC) as a property value of the given kind -> (params, value)"""
    if kind == "utc":
        return "", dt.strftime("%Y%m%dT%H%M%SZ")
    if kind == "float":
        return "", dt.strftime("%Y%m%dT%H%M%S")          # wall clock digits = UTC digits; instant depends on tz
    if kind == "tzid":
        return ";TZID=" + tzid, dt.astimezone(ZoneInfo(tzid)).strftime("%Y%m%dT%H%M%S")
    if kind == "date":
        return ";VALUE=DATE", dt.strftime("%Y%m%d")
    raise ValueError(kind)


def row_objects():
    """-> list of (label, component type, [property lines], needs_vtimezone)"""
    out = []
    H = timedelta(hours=1)
    for kind in ("utc", "float", "tzid", "date"):
        p, v = fmt(T0, kind)
        ds = f"DTSTART{p}:{v}"
        if kind == "date":
            pe, ve = fmt(T0 + timedelta(days=2), "date")
            out.append((f"VEVENT/DTEND/{kind}", "VEVENT", [ds, f"DTEND{pe}:{ve}"], False))
            out.append((f"VEVENT/DURATION>0/{kind}", "VEVENT", [ds, "DURATION:P2D"], False))
            out.append((f"VEVENT/DURATION=0/{kind}", "VEVENT", [ds, "DURATION:P0D"], False))
        else:
            pe, ve = fmt(T0 + H, kind)
            out.append((f"VEVENT/DTEND/{kind}", "VEVENT", [ds, f"DTEND{pe}:{ve}"], kind == "tzid"))
            out.append((f"VEVENT/DURATION>0/{kind}", "VEVENT", [ds, "DURATION:PT1H"], kind == "tzid"))
            out.append((f"VEVENT/DURATION=0/{kind}", "VEVENT", [ds, "DURATION:PT0S"], kind == "tzid"))
        out.append((f"VEVENT/neither/{kind}", "VEVENT", [ds], kind == "tzid"))
    for kind in ("utc", "float", "tzid"):
        p, v = fmt(T0, kind)
        ds = f"DTSTART{p}:{v}"
        pd, vd = fmt(T0 + 2 * H, kind)
        due = f"DUE{pd}:{vd}"
        out.append((f"VTODO/DTSTART+DURATION/{kind}", "VTODO", [ds, "DURATION:PT1H"], kind == "tzid"))
        out.append((f"VTODO/DTSTART+DUE/{kind}", "VTODO", [ds, due], kind == "tzid"))
        out.append((f"VTODO/DTSTART/{kind}", "VTODO", [ds], kind == "tzid"))
        out.append((f"VTODO/DUE/{kind}", "VTODO", [due], kind == "tzid"))
    comp = "COMPLETED:" + (T0 + 3 * H).strftime("%Y%m%dT%H%M%SZ")
    cre = "CREATED:" + (T0 - H).strftime("%Y%m%dT%H%M%SZ")
    out.append(("VTODO/COMPLETED+CREATED/utc", "VTODO", [comp, cre], False))
    # ... and a to-do recorded after it was finished: COMPLETED earlier than CREATED
    comp_e = "COMPLETED:" + (T0 - 3 * H).strftime("%Y%m%dT%H%M%SZ")
    cre_l = "CREATED:" + (T0 + 2 * H).strftime("%Y%m%dT%H%M%SZ")
    out.append(("VTODO/COMPLETED-before-CREATED/utc", "VTODO", [comp_e, cre_l], False))
    out.append(("VTODO/COMPLETED/utc", "VTODO", [comp], False))
    out.append(("VTODO/CREATED/utc", "VTODO", [cre], False))
    out.append(("VTODO/none/-", "VTODO", [], False))
    for kind in ("utc", "float", "tzid", "date"):
        p, v = fmt(T0, kind)
        out.append((f"VJOURNAL/DTSTART/{kind}", "VJOURNAL", [f"DTSTART{p}:{v}"], kind == "tzid"))
    out.append(("VJOURNAL/none/-", "VJOURNAL", [], False))
    out.append(("VFREEBUSY/DTSTART+DTEND/utc", "VFREEBUSY", ["DTSTART:" + T0.strftime("%Y%m%dT%H%M%SZ"), "DTEND:" + (T0 + H).strftime("%Y%m%dT%H%M%SZ")], False))
    out.append(("VFREEBUSY/FREEBUSY/utc", "VFREEBUSY", ["FREEBUSY:" + T0.strftime("%Y%m%dT%H%M%SZ") + "/" + (T0 + H).strftime("%Y%m%dT%H%M%SZ") + "," + (T0 + 4 * H).strftime("%Y%m%dT%H%M%SZ") + "/PT30M"], False))
    out.append(("VFREEBUSY/none/-", "VFREEBUSY", [], False))
    return out


def build_object(label, ctype, lines, vtz, idx):
    L = ["BEGIN:VCALENDAR", "VERSION:2.0", "PRODID:-//vf//c11//EN"]
    if vtz:
        L += gen.VTIMEZONE_AMS
    L += ["BEGIN:" + ctype, "UID:c11-%d" % idx, "DTSTAMP:20240101T000000Z"] + lines + ["SUMMARY:" + label.replace("/", " "), "END:" + ctype, "END:VCALENDAR"]
    return ("\r\n".join(L) + "\r\n").encode()


def key_instants(cal, tz):
    """all instants the tables look at, for one object"""
    pts = set()
    for c in cal.subs:
        if c.name not in O.TABLES:
            continue
        for pn in ("DTSTART", "DTEND", "DUE", "COMPLETED", "CREATED"):
            p = c.first(pn)
            if p is not None:
                inst, is_date = O.prop_instant(p, tz)
                pts.add(inst)
                if is_date:
                    pts.add(O.next_day_start(p, tz))
        ds, du = c.first("DTSTART"), c.first("DURATION")
        if ds is not None and du is not None:
            pts.add(O.prop_instant(ds, tz)[0] + O.parse_duration(du.value))
        for fb in c.get("FREEBUSY"):
            for per in fb.value.split(","):
                s, _, e = per.partition("/")
                ps = O.parse_dt(s, None, O.UTC)[0]
                pts.add(ps)
                pts.add(ps + O.parse_duration(e) if e.startswith("P") else O.parse_dt(e, None, O.UTC)[0])
    return sorted(pts)


def tz_xml(tzid):
    if tzid is None:
        return ""
    txt = "BEGIN:VCALENDAR\r\nVERSION:2.0\r\nPRODID:-//vf//tz//EN\r\nBEGIN:VTIMEZONE\r\nTZID:%s\r\nBEGIN:STANDARD\r\nDTSTART:19700101T000000\r\nTZOFFSETFROM:+0000\r\nTZOFFSETTO:+0000\r\nEND:STANDARD\r\nEND:VTIMEZONE\r\nEND:VCALENDAR\r\n" % tzid
    from xml.sax.saxutils import escape
    return "<C:timezone>%s</C:timezone>" % escape(txt)


class Runner:
    def __init__(self, w, res, rng, cfg):
        self.w, self.res, self.rng, self.cfg = w, res, rng, cfg
        self.log = []

    def viol(self, sig, msg, extra=None):
        self.res.violation(sig, msg, {"config": self.cfg, "detail": extra})

    def upload(self, colpath, objs):
        """objs: list of (name, label, body) -> {name: (label, parsed cal, served body)}"""
        w = self.w
        out = {}
        for name, label, body in objs:
            s, r = w.call("put", "PUT", w.url(colpath, name), [("Content-Type", "text/calendar")], body, record=False)
            if not W.World.success(s.eff):
                self.res.count("upload_refused")
                self.res.notes.append(f"upload of {label} refused: {s.eff}")
                continue
            st, et, served, _ = w.fetch(colpath, name)
            try:
                cal = icl.parse_calendar(served)
            except icl.ICLError:
                self.viol(f"{w.fe_kind}/served-object-unparseable", f"{name}: served object does not parse")
                continue
            out[name] = (label, cal, served)
        return out

    def query(self, colpath, flt, tzid, data=True):
        w = self.w
        body = X.calendar_query(O.render(flt), data=data, extra=tz_xml(tzid))
        s, r = w.report(colpath, body, record=False)
        if r.status != 207:
            return None, s, r
        try:
            rs, _ = X.parse_multistatus(r.body)
        except X.MalformedXML:
            return None, s, r
        got = {}
        for resp in rs:
            nm = w.rel_name(resp.href or "", colpath)
            if nm:
                got[nm] = resp
        return got, s, r

    def judge(self, colpath, objs, flt, tzid, sigfn, descr, targeted=None):
        """sigfn(name, label, kind) -> signature"""
        res = self.res
        tz = ZoneInfo(tzid) if tzid else O.UTC
        expect = {}
        for nm, (label, cal, served) in objs.items():
            try:
                expect[nm] = O.matches(flt, cal, tz)
            except O.Undefined:
                expect[nm] = None
                res.count("undefined_by_rfc")
        got, s, r = self.query(colpath, flt, tzid)
        res.evaluations += 1
        res.count("queries")
        if got is None:
            res.count("query_failed:%s" % s.status)
            self.viol(sigfn(None, None, "query-answers-%s" % s.status), f"calendar-query {descr} answered {s.status}: {(r.body or b'')[-300:]!r}", {"filter": O.render(flt), "timezone": tzid})
            return
        # recognise one known mechanism: text-match evaluated as equality
        eq_explains = False
        if "text-match" in O.render(flt) and any(e is not None and (nm in got) != e for nm, e in expect.items()):
            O.TEXT_MODE = "equals"
            try:
                eq = {}
                for nm, (label, cal, served) in objs.items():
                    try:
                        eq[nm] = O.matches(flt, cal, tz)
                    except O.Undefined:
                        eq[nm] = None
            finally:
                O.TEXT_MODE = "substring"
            eq_explains = all(v is None or expect[nm] is None or (nm in got) == v for nm, v in eq.items())
        for nm, e in expect.items():
            if e is None:
                continue
            label = objs[nm][0]
            g = nm in got
            res.count("judgements")
            if e:
                res.count("expected_match")
            else:
                res.count("expected_nomatch")
            res.count(("row_match:" if e else "row_nomatch:") + label.rsplit("/", 1)[0])
            if g != e:
                kind = "missing" if e else "spurious"
                if eq_explains:
                    self.viol("text-match/evaluated-as-equality-instead-of-substring", f"calendar-query {descr}: object {nm} is {'not returned but matches' if e else 'returned but does not match'}; the whole result equals what an equality test gives",
                              {"filter": O.render(flt), "object": objs[nm][2].decode("utf-8", "replace")})
                    continue
                self.viol(sigfn(nm, label, kind), f"calendar-query {descr}: object {nm} ({label}) is {'not returned but matches' if e else 'returned but does not match'} under RFC 4791",
                          {"filter": O.render(flt), "timezone": tzid, "object": objs[nm][2].decode("utf-8", "replace")})
            elif g and e:
                data = got[nm].prop_text(X.P_CALDATA)
                want = objs[nm][2].decode("utf-8", "replace").replace("\r\n", "\n")
                res.count("calendar_data_compared")
                if data is None or data.replace("\r\n", "\n") != want:
                    self.viol(f"{self.w.fe_kind}/calendar-data-differs-from-resource", f"calendar-query {descr}: calendar-data of {nm} differs from the resource content", {"data": (data or "")[:500], "get": want[:500]})
        for nm in got:
            if nm not in objs:
                self.viol(sigfn(nm, "?", "unknown-member-returned"), f"calendar-query {descr}: returns {nm} which was not uploaded")
        self.njudged = getattr(self, "njudged", 0) + 1
        if self.njudged % 6 == 0:
            self.judge_depth(colpath, flt, tzid, set(got), descr)

    def judge_depth(self, colpath, flt, tzid, depth1, descr):
        """the scope of the report is set by its Depth header (RFC 4791 7.8, RFC 3253 3.6): with `0`, or none, it is the
        collection alone, which is not a calendar object resource, so no member is reported; `infinity` reaches the members
        as `1` does (a calendar collection has no collections inside)."""
        w, res = self.w, self.res
        body = X.calendar_query(O.render(flt), data=True, extra=tz_xml(tzid))
        for label, hdrs in (("0", [("Depth", "0"), X.XML_CT]), ("absent", [X.XML_CT]), ("infinity", [("Depth", "infinity"), X.XML_CT])):
            s, r = w.call("report-depth-" + label, "REPORT", w.url(colpath), hdrs, body, record=False)
            res.count("depth_variant_queries")
            res.count("depth_variant:" + label)
            if r.status != 207:
                self.viol(f"depth/{label}/query-answers-{s.status}", f"calendar-query {descr} with Depth {label} answered {s.status}")
                continue
            try:
                rs, _ = X.parse_multistatus(r.body)
            except X.MalformedXML:
                self.viol(f"depth/{label}/malformed-answer", f"calendar-query {descr} with Depth {label}: malformed multistatus")
                continue
            names = {w.rel_name(resp.href or "", colpath) for resp in rs} - {None, ""}
            if label == "infinity":
                if names != depth1:
                    self.viol("depth/infinity/result-differs-from-depth-1", f"calendar-query {descr}: Depth infinity reports {sorted(names)!r}, Depth 1 {sorted(depth1)!r}")
            elif names:
                if depth1:
                    res.count("depth0_queries_whose_depth1_answer_has_members")
                self.viol(f"depth/{label}/members-reported-outside-the-scope-of-the-report", f"calendar-query {descr} with Depth {label}: members {sorted(names)[:5]!r} reported although the scope is the collection alone")
            elif depth1:
                res.count("depth0_queries_whose_depth1_answer_has_members")


def relation(s, e, pts):
    def rel(x):
        if x is None:
            return "open"
        for i, p in enumerate(pts):
            d = (x - p).total_seconds()
            if abs(d) <= 1:
                return "p%d%s" % (i, {-1: "-1s", 0: "", 1: "+1s"}[int(d)])
        return "far"
    return rel(s) + ".." + rel(e)


def run_timerange(run, args, rng):
    w, res = run.w, run.res
    rows = row_objects()
    colpath = "/user/calendars/tr/"
    w.mkcol(colpath, "calendar")
    objs = run.upload(colpath, [("o%d.ics" % i, label, build_object(label, ct, lines, vtz, i)) for i, (label, ct, lines, vtz) in enumerate(rows)])
    res.count("objects_uploaded", len(objs))
    names = sorted(objs)
    sel = args.get("rows")
    for tzid in args["tzs"]:
        tz = ZoneInfo(tzid) if tzid else O.UTC
        for nm in names:
            label, cal, served = objs[nm]
            if sel is not None and (hash_row(label) % sel[1]) != sel[0]:
                continue
            ctype = label.split("/")[0]
            pts = key_instants(cal, tz)
            if not pts:
                pts = [T0]
            cand = []
            for p in pts:
                cand += [p - timedelta(seconds=1), p, p + timedelta(seconds=1)]
            cand = sorted(set(cand))
            pairs = [(s, e) for s in cand for e in cand if s < e]
            pairs += [(None, e) for e in cand] + [(s, None) for s in cand]
            rng.shuffle(pairs)
            for (s, e) in pairs[:args["pairs_per_object"]]:
                flt = {"type": "comp", "name": "VCALENDAR", "children": [{"type": "comp", "name": ctype, "time_range": (s if s else O.NEG_INF, e if e else O.POS_INF)}]}
                rl = relation(s, e, pts)

                def sigfn(n, lab, kind, rl=rl):
                    if lab is None:
                        return f"time-range/{ctype}/{kind}"
                    return f"time-range/{lab.rsplit('/', 1)[0]}/{kind}"
                run.judge(colpath, objs, flt, tzid, sigfn, f"time-range {ctype} [{s} .. {e}) tz={tzid} ({rl} of {label})")
                res.seen("tr", label, rl, tzid is None)


def hash_row(label):
    import zlib
    return zlib.crc32(label.encode())


# ------------------------------------------------------------------ generic filters

def gen_objects(rng, n, plain=False):
    objs = []
    for i in range(n):
        kind = rng.choice(["VEVENT", "VEVENT", "VTODO", "VJOURNAL"])
        L = ["BEGIN:VCALENDAR", "VERSION:2.0", "PRODID:-//vf//c11//EN"]
        vtz = rng.random() < 0.3 and not plain
        if vtz:
            L += gen.VTIMEZONE_AMS
        L += ["BEGIN:" + kind, "UID:c11g-%d" % i, "DTSTAMP:20240101T000000Z"]
        if rng.random() < 0.8:
            if vtz and rng.random() < 0.6:
                L.append("DTSTART;TZID=Europe/Amsterdam:2024%02d%02dT100000" % (rng.randint(1, 12), rng.randint(1, 28)))
            else:
                L.append("DTSTART:2024%02d%02dT100000Z" % (rng.randint(1, 12), rng.randint(1, 28)))
        if rng.random() < 0.8:
            L.append("SUMMARY:" + gen.esc_text(rng.choice(["Team meeting", "Lunch with Zoë", "lunch", "Meeting notes", "Ünïcode party", "x,y;z", "ALL CAPS", "plain"])))
        if rng.random() < 0.5:
            L.append("DESCRIPTION:" + gen.esc_text(rng.choice(["Discuss the meeting agenda", "bring lunch", "line1\nline2", "nothing"])))
        if rng.random() < 0.4:
            L.append("LOCATION;LANGUAGE=en:" + rng.choice(["Room 1", "room 2", "Café"]))
        if rng.random() < 0.4:
            L.append("CATEGORIES:" + ",".join(rng.sample(["work", "home", "Work-Travel", "ünï"], rng.randint(1, 2))))
        if rng.random() < 0.4 and kind == "VEVENT":
            L.append("ATTENDEE;CN=\"Doe, John\";PARTSTAT=%s:mailto:john@example.com" % rng.choice(["ACCEPTED", "DECLINED"]))
        if rng.random() < 0.3 and kind == "VTODO":
            L.append("STATUS:" + rng.choice(["NEEDS-ACTION", "COMPLETED"]))
            if rng.random() < 0.5:
                L.append("COMPLETED:2024%02d01T000000Z" % rng.randint(1, 12))
        if rng.random() < 0.3:
            L.append("X-CUSTOM:" + rng.choice(["alpha", "Beta", "gamma delta"]))
        own = L[L.index("BEGIN:" + kind):]
        if rng.random() < 0.3 and kind == "VEVENT" and any(l.startswith("DTSTART:") for l in own):
            # a recurring event (its RRULE is a property like any other for prop-filters)
            L.append("RRULE:" + rng.choice(["FREQ=DAILY;COUNT=3", "FREQ=WEEKLY;COUNT=4"]))
        if rng.random() < 0.3:
            # values that are falsy once parsed
            L.append(rng.choice(["PRIORITY:0", "SEQUENCE:0", "PRIORITY:5", "SEQUENCE:2"]))
        if rng.random() < 0.15 and kind == "VTODO":
            L.append("PERCENT-COMPLETE:0")
        if rng.random() < 0.1:
            L.append("COMMENT:")
        if rng.random() < 0.35 and kind in ("VEVENT", "VTODO"):
            L += ["BEGIN:VALARM", "ACTION:" + rng.choice(["DISPLAY", "AUDIO"]), "DESCRIPTION:Reminder", "TRIGGER:-PT15M", "END:VALARM"]
        L += ["END:" + kind]
        dts = [l for l in own if l.startswith("DTSTART:")]
        if kind == "VEVENT" and any(l.startswith("RRULE:") for l in L) and dts and not plain and rng.random() < 0.6:
            # one instance of the recurring event overridden: a second VEVENT with other texts.  A comp-filter matches
            # the resource when *any* of its VEVENTs satisfies it
            L += ["BEGIN:VEVENT", "UID:c11g-%d" % i, "DTSTAMP:20240101T000000Z", "RECURRENCE-ID:" + dts[0][8:], "DTSTART:" + dts[0][8:17] + "130000Z",
                  "SUMMARY:" + gen.esc_text(rng.choice(["moved: notes", "Lunch with Zoë", "override", "Team meeting"]))]
            if rng.random() < 0.5:
                L.append("LOCATION;LANGUAGE=en:" + rng.choice(["Room 1", "Annex"]))
            if rng.random() < 0.3:
                L.append("X-CUSTOM:" + rng.choice(["alpha", "omega"]))
            L += ["END:VEVENT"]
            if rng.random() < 0.5:
                # (also the other way round: the override first, the master last)
                a = L.index("BEGIN:VEVENT")
                b = L.index("BEGIN:VEVENT", a + 1)
                L = L[:a] + L[b:] + L[a:b]
        L += ["END:VCALENDAR"]
        objs.append(("g%d.ics" % i, kind + ("/generated-with-override" if L.count("BEGIN:VEVENT") > 1 else "/generated"), ("\r\n".join(L) + "\r\n").encode()))
    return objs


def gen_filter(rng):
    """-> (filter, feature list)"""
    feats = []
    comp = rng.choice(["VEVENT", "VEVENT", "VTODO", "VJOURNAL", "VTIMEZONE", "VFREEBUSY"])
    r = rng.random()
    if r < 0.10:
        feats.append("comp-exists")
        inner = {"type": "comp", "name": comp}
    elif r < 0.22:
        feats.append("comp-is-not-defined")
        inner = {"type": "comp", "name": comp, "is_not_defined": True}
    else:
        inner = {"type": "comp", "name": comp if comp not in ("VTIMEZONE", "VFREEBUSY") else "VEVENT", "children": []}
        nchild = 1 if rng.random() < 0.8 else 2
        for _ in range(nchild):
            k = rng.random()
            if k < 0.12 and inner["name"] in ("VEVENT", "VTODO"):
                sub = rng.random()
                if sub < 0.4:
                    feats.append("nested-comp-exists")
                    inner["children"].append({"type": "comp", "name": "VALARM"})
                elif sub < 0.7:
                    feats.append("nested-comp-is-not-defined")
                    inner["children"].append({"type": "comp", "name": "VALARM", "is_not_defined": True})
                else:
                    feats.append("nested-comp-prop-text-match")
                    inner["children"].append({"type": "comp", "name": "VALARM", "children": [{"type": "prop", "name": "ACTION", "text_match": {"text": rng.choice(["DISPLAY", "display", "AUD", "EMAIL"])}}]})
                continue
            pname = rng.choice(["SUMMARY", "SUMMARY", "DESCRIPTION", "LOCATION", "CATEGORIES", "UID", "X-CUSTOM", "ATTENDEE", "STATUS", "DTSTART", "COMPLETED", "PRIORITY", "SEQUENCE",
                                "PERCENT-COMPLETE", "COMMENT", "RRULE", "RRULE"])
            pf = {"type": "prop", "name": pname}
            k2 = rng.random()
            if k2 < 0.15:
                feats.append("prop-exists")
            elif k2 < 0.3:
                feats.append("prop-is-not-defined")
                pf["is_not_defined"] = True
            elif pname in ("DTSTART", "COMPLETED") and k2 < 0.6:
                feats.append("prop-time-range")
                m = rng.randint(1, 11)
                pf["time_range"] = (datetime(2024, m, 1, 0, 0, 1, tzinfo=timezone.utc), datetime(2024, m + 1, 1, 0, 0, 1, tzinfo=timezone.utc))
            elif pname in ("ATTENDEE", "LOCATION", "DTSTART") and k2 < 0.75:
                par = {"ATTENDEE": rng.choice(["CN", "PARTSTAT", "ROLE"]), "LOCATION": "LANGUAGE", "DTSTART": "TZID"}[pname]
                k3 = rng.random()
                if k3 < 0.33:
                    feats.append("param-exists")
                    pf["params"] = [{"name": par}]
                elif k3 < 0.66:
                    feats.append("param-is-not-defined")
                    pf["params"] = [{"name": par, "is_not_defined": True}]
                else:
                    # (whole values too, in both cases: collations must also apply inside a param-filter)
                    ptxt = rng.choice(["Doe", "ACCEPT", "en", "Amsterdam", "zzz", "ACCEPTED", "accepted", "declined", "EN", "doe, john", "Doe, John", "europe/amsterdam", "Europe/Amsterdam"])
                    pcol = rng.choice([None, None, "i;octet", "i;ascii-casemap"])
                    pneg = rng.random() < 0.2
                    feats.append("param-text-match" + ("/" + pcol if pcol else "") + ("/negate" if pneg else ""))
                    pf["params"] = [{"name": par, "text_match": {"text": ptxt, "collation": pcol, "negate": pneg}}]
            elif pname in ("SUMMARY", "DESCRIPTION", "LOCATION", "CATEGORIES", "UID", "X-CUSTOM", "STATUS"):
                text = rng.choice(["meeting", "Meeting", "lunch", "LUNCH", "Team meeting", "Zoë", "zoë", "ünï", "room", "work", "Work", "alpha", "c11g-1", "NEEDS", "notes", "x,y", "zzz-nothing", "a",
                                   # whole values that differ from a stored one only in the case of a non-ASCII letter
                                   "LUNCH WITH ZOË", "ünïcode party", "ÜNÏCODE PARTY", "CAFÉ"])
                col = rng.choice([None, None, "i;ascii-casemap", "i;octet", "i;unicode-casemap"])
                neg = rng.random() < 0.25
                if pname == "CATEGORIES":
                    neg = False
                ascii_only = all(ord(c) < 128 for c in text)
                feats.append("text-match" + ("/" + col if col else "/default") + ("/negate" if neg else "") + ("" if ascii_only else "/nonascii-text") + ("/categories" if pname == "CATEGORIES" else ""))
                pf["text_match"] = {"text": text, "collation": col, "negate": neg}
            else:
                feats.append("prop-exists")
            inner["children"].append(pf)
    top = "VCALENDAR"
    if rng.random() < 0.04:
        feats.append("top-level-not-vcalendar")
        return {"type": "comp", "name": inner["name"], "children": inner.get("children", [])}, feats
    if rng.random() < 0.06:
        feats.append("vcalendar-prop-filter")
        return {"type": "comp", "name": top, "children": [inner, {"type": "prop", "name": rng.choice(["VERSION", "PRODID", "METHOD"]), **({"is_not_defined": True} if rng.random() < 0.4 else {})}]}, feats
    return {"type": "comp", "name": top, "children": [inner]}, feats


def run_generic(run, args, rng):
    w, res = run.w, run.res
    colpath = "/user/calendars/gen/"
    w.mkcol(colpath, "calendar")
    objs = run.upload(colpath, gen_objects(rng, args["gen_objects"]))
    res.count("objects_uploaded", len(objs))
    res.count("objects_with_an_overridden_instance", sum(1 for v in objs.values() if v[0].endswith("with-override")))
    for i in range(args["gen_filters"]):
        flt, feats = gen_filter(rng)
        fs = "+".join(sorted(set(feats)))
        if i % 9 == 4:
            # what calendar clients do between their searches: a report that asks for expanded recurrences.
            # It is a read; the answers of the filters that follow must not depend on it
            exp = ('<C:calendar-data><C:expand start="20240101T000000Z" end="20250101T000000Z"/></C:calendar-data>')
            body = (f'<?xml version="1.0" encoding="utf-8"?><C:calendar-query {X.NS}><D:prop><D:getetag/>{exp}</D:prop><C:filter><C:comp-filter name="VCALENDAR">'
                    '<C:comp-filter name="VEVENT"/></C:comp-filter></C:filter></C:calendar-query>').encode()
            s_, r_ = w.report(colpath, body, record=False)
            res.count("expand_reports")
            res.count("expand_report_status:%s" % s_.status)

        def sigfn(n, lab, kind, fs=fs):
            return f"filter/{fs}/{kind}"
        run.judge(colpath, objs, flt, None, sigfn, f"filter [{fs}] {O.render(flt)}")
        res.seen("flt", fs)
        res.count("feature:" + fs.split("/")[0])


def run_shard(args):
    res = common.Result()
    rng = random.Random(args["seed"])
    try:
        O.selftest()
    except Exception:
        res.inconclusive.append("oracle self-test failed (framework error): " + traceback.format_exc()[-800:])
        return res
    base = common.mkscratch("c11")
    # index transparency is C10's property: here the filter evaluation itself is
    # judged, with the automatic index switched off (hidden developer option)
    w = W.World(base, fe_kind=args["fe"], prefix="/", seed=args["seed"], extra_args=["--index-threshold", "1000000000"])
    w.res = res
    try:
        w.start()
        if args["fe"] == "wsgi":
            w.fe.app.backend.index_threshold = 1000000000
        cfg = {k: v for k, v in args.items()}
        run = Runner(w, res, rng, cfg)
        if args["part"] == "timerange":
            run_timerange(run, args, rng)
        else:
            run_generic(run, args, rng)
        res.sample({"config": cfg})
    except Exception:
        res.inconclusive.append("harness exception: " + traceback.format_exc()[-1500:])
    finally:
        w.stop()
        common.rmtree(base)
    return res


def check(tier, seed, t0):
    th = tier == "thorough"
    shards = []
    n = 10
    for i in range(n):
        shards.append({"part": "timerange", "fe": ["wsgi", "aio"][i % 2], "seed": seed * 100 + i, "tzs": [None, TZS[1 + i % 3]] if not th else TZS, "rows": [i, n],
                       "pairs_per_object": 40 if not th else 250})
    for i in range(6):
        shards.append({"part": "generic", "fe": ["wsgi", "aio"][i % 2], "seed": seed * 100 + 50 + i, "gen_objects": 40, "gen_filters": 300 if not th else 1500})
    results, failures = common.run_shards("vf.props.c11", shards, timeout_s=300 if not th else 3000)
    merged = common.merge(results)
    c = merged["counters"]
    k = 1 if not th else 8
    guards = [("queries", c.get("queries", 0), 2500 * (1 if not th else 4)), ("(object, query) judgements", c.get("judgements", 0), 90000 * (1 if not th else 4)),
              ("expected matches", c.get("expected_match", 0), 5000 * k), ("expected non-matches", c.get("expected_nomatch", 0), 5000 * k),
              ("calendar-data comparisons", c.get("calendar_data_compared", 0), 3000 * k), ("reports with expanded recurrences between the filter queries (answered 207)", c.get("expand_report_status:207", 0), 50),
              ("queries repeated with Depth 0 / no Depth whose Depth-1 answer has members", c.get("depth0_queries_whose_depth1_answer_has_members", 0), 200),
              ("generated objects holding a recurring event and an overridden instance", c.get("objects_with_an_overridden_instance", 0), 10)]
    rows = sorted({lab.rsplit("/", 1)[0] for (lab, _, _, _) in row_objects()})
    for r in rows:
        if r not in ("VFREEBUSY/none", "VJOURNAL/none"):      # FALSE by definition
            guards.append(("row %s matched" % r, c.get("row_match:" + r, 0), 1))
        if r != "VTODO/none":                                  # TRUE by definition
            guards.append(("row %s not matched" % r, c.get("row_nomatch:" + r, 0), 1))
    return common.finish(PROP, tier, seed, "exploration", merged, failures, RULE, t0, guards=guards,
                         assumptions=["vf/caloracle.py implements RFC 4791 9.7/9.9 (self-tested against RFC-style vectors before every shard)", "server default timezone is UTC (TZ=UTC); other zones only through CALDAV:timezone",
                                      "no recurrence rules in time-range cases; at most one instance of any property a filter names; prop-filter time-range values are >= 1 s away from the range ends"])


def replay(path):
    import json
    rp = json.load(open(path))
    cfg = rp["witness"]["config"]
    res = run_shard(dict(cfg))
    for v in res.violations:
        print("VIOLATION property=%s replay=%s" % (PROP, path))
        print("  sig=%s :: %s" % (v["sig"], v["msg"][:300]))
    return 1 if res.violations else 0


# (what later rounds of seeded changes added to the workload; part of the evidence's description of the check)
RULE += "; " + 'every sixth query repeated with Depth 0, without Depth (no member may be reported) and with Depth infinity; recurring events with an overridden instance; collations and negation inside param-filters'
