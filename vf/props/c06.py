"""C06  UIDs are unique within a calendar, and only real conflicts are refused."""
from vf import common, histrun, monitors
from vf.props import _hist, _mk

PROP = "C06"
RULE = ("random histories over 7 names x 6 UIDs per calendar (UIDs differing only in case, with spaces, escaped , and ;, non-ASCII, 150 chars, objects without UID): create, "
        "overwrite keeping / changing the UID, conflicting creates and overwrites, delete, delete-and-reuse, POST, restarts, on tree-git and bare-git through both front ends, and "
        "Store-API histories on vdir / bare-git / tree-git; oracle = uid->holder map recomputed from the *served* bodies by the harness's own parser at every audit; a no-uid-conflict "
        "answer is legitimate iff another live member holds the uploaded UID; distinct = distinct (backend, uid->holder map) states")
WEIGHTS = {"put_new": 9, "put_same": 2, "put_reser": 1, "put_change": 4, "put_revert": 2, "put_invalid": 1, "put_cond": 1, "put_uidconflict": 7, "put_uidchange": 8, "post": 5,
           "delete": 7, "delete_missing": 0.5, "delete_cond_stale": 0.5, "mkcol_new": 2.5, "mkcol_existing": 0.2, "delete_col": 2.0, "proppatch": 0.3, "read": 1, "restart": 0.6,
           "put_missing_col": 0.1, "put_nouid": 1.5}
MON = [monitors.C06Monitor]
DKW = {"pool": 7, "uids": 7, "audit_every": 6, "kinds": ("calendar",)}


def run_shard(args):
    res = common.Result()
    if args.get("mode") == "store":
        from vf import storedrv
        return storedrv.run(args, res, PROP)
    return histrun.run_history(args, MON, res, weights=WEIGHTS, driver_kw=DKW)


def check(tier, seed, t0):
    shards = _hist.plan(tier, seed, quick=(12, 120, 1), thorough=(14, 150, 6))
    for i, b in enumerate(["vdir", "bare-mem", "bare-disk", "tree"]):
        shards.append({"mode": "store", "backend": b, "seed": seed * 100 + 80 + i, "steps": 250 if tier == "quick" else 1500, "histories": 2 if tier == "quick" else 6})
    merged, failures = _hist.run("vf.props.c06", shards, tier)
    c = merged["counters"]
    k = 1 if tier == "quick" else 8
    guards = [("genuine conflicts refused", c.get("genuine_conflicts_refused", 0), 40 * k), ("UIDs released by a UID change", c.get("uid_released_by_change", 0), 40 * k),
              ("UIDs released by delete", c.get("uid_released_by_delete", 0), 40 * k), ("UID reuses after release", c.get("uid_reused", 0), 40 * k),
              ("uid audits", c.get("uid_audits", 0) , 800 * k), ("store-API steps", c.get("store_steps", 0), 1500 * k), ("restarts", c.get("restarts", 0), 3),
              ("histories on a calendar made by plain MKCOL + PROPPATCH resourcetype", c.get("cal0_created_by:mkcol-then-proppatch", 0), 1 if tier == "quick" else 6),
              ("conflicting uploads under a name that differs from the holder's in letter case only", c.get("op:put_uidconflict_name_differs_in_case_only", 0), 10 * k)]
    return common.finish(PROP, tier, seed, "exploration", merged, failures, RULE, t0, guards=guards,
                         assumptions=["all non-VTIMEZONE components of a generated object share one UID, so 'the UID of a resource' is unambiguous", "UID comparison is exact on the unescaped TEXT value"])


replay = _mk.make_replay(PROP, MON, WEIGHTS, DKW)


# (what later rounds of seeded changes added to the workload; part of the evidence's description of the check)
RULE += "; " + "conflicting uploads under the holder's name with the case of its letters swapped"
