"""C16  Listings are complete and every href the server emits resolves."""
import os
import random
import re
import traceback
import urllib.parse

from vf import common, gen, world as W, davxml as X

PROP = "C16"
RULE = ("members with names from a grammar of URL-significant and non-ASCII characters (space, %, literal %41/%2F, #, ?, ;, +, &, =, @, comma, quotes, parentheses, ~, :, "
        "leading blank, non-BMP, combining marks, 150-char names) are created (client percent-encodes every reserved octet) in calendar / address book / plain / nested "
        "collections under prefixes /, /dav/, /a/b/ through both front ends; PROPFIND Depth 0 and 1 (request URL with and without trailing slash), sync-collection, multiget, "
        "query, POST Location, PROPPATCH and error bodies and href-valued properties are harvested; every emitted href is resolved per RFC 3986 against the request URL and "
        "sent byte-for-byte; a member href must return that member (identified by the unique token in its body), a collection href must end in '/' and describe a collection, "
        "Depth 0 = exactly the target, Depth 1 = target + each direct member exactly once; distinct = distinct (front end, prefix, source, name feature class, outcome)")

FEATS = [("leading-blank", lambda n: n[:1] == " "), ("colon", lambda n: ":" in n), ("question", lambda n: "?" in n), ("hash", lambda n: "#" in n), ("semicolon", lambda n: ";" in n),
         ("pct-escape-literal", lambda n: re.search(r"%[0-9A-Fa-f]{2}", n) is not None), ("percent", lambda n: "%" in n), ("backslash", lambda n: "\\" in n),
         ("latin1-pair-that-is-valid-utf8", lambda n: any(x in n for x in ("Ã©", "Â£", "Ã¼", "Ã\xa0"))), ("space", lambda n: " " in n), ("plus", lambda n: "+" in n), ("nonascii", lambda n: any(ord(c) > 127 for c in n)),
         ("other-special", lambda n: any(c in n for c in "&=@,'()~!$*[]{}|^`\"<>")), ("long", lambda n: len(n) > 100)]


def feature(name):
    for k, f in FEATS:
        if f(name):
            return k
    return "plain"


NAME_ATOMS = [" ", "%", "%41", "%2F", "%2f", "#", "?", ";", "+", "&", "=", "@", ",", "'", "(", ")", "~", ":", "!", "$", "*", "é", "ü", "日本", "😀", "é", "İ", "[", "]",
              "{", "}", "|", "^", "`", "\"", "<", ">", "\\", "a b", "..", "...",
              # Latin-1-range characters whose UTF-8 bytes... are themselves what a mis-decoded name looks like: 'Ã©' must stay 'Ã©'
              "Ã©", "Â£", "Ã¼", "Ã\xa0"]


def gen_names(rng, n, ext):
    out, seen = [], set()
    # every atom at least once across the run is ensured by cycling
    atoms = list(NAME_ATOMS)
    rng.shuffle(atoms)
    i = 0
    # names made of ASCII and Latin-1-range characters only, whose bytes are valid UTF-8 as a whole
    # ... together with the name those bytes would give if they were decoded once more: two different members
    for fixed in rng.sample(["cafÃ©", "Â£5", "fÃ¼r", "nÃ©e Â£", "Ã©"], 2):
        if n >= 6:
            for nm in (fixed, fixed.encode("latin-1").decode("utf-8")):
                if nm + ext not in seen:
                    seen.add(nm + ext)
                    out.append(nm + ext)
    while len(out) < n:
        k = rng.choice([1, 1, 2])
        s = rng.choice(["", "n", "N1"])
        for _ in range(k):
            s += atoms[i % len(atoms)] + rng.choice(["", "a", "Z"])
            i += 1
        if rng.random() < 0.05:
            s += "L" * 150
        if s.startswith(".") or s in ("", ".", ".."):
            s = "n" + s
        s += ext
        if s not in seen and "/" not in s:
            seen.add(s)
            out.append(s)
    return out


def resolve(request_target, href):
    """RFC 3986 resolution of an emitted href against the request URL; returns
    the request target a client would send (fragment dropped) or None."""
    try:
        u = urllib.parse.urljoin("http://localhost" + request_target, href)
        sp = urllib.parse.urlsplit(u)
    except ValueError:
        return None
    if sp.scheme not in ("http", "https") or sp.netloc not in ("localhost",):
        return None
    t = sp.path or "/"
    if sp.query:
        t += "?" + sp.query
    return t


class Runner:
    def __init__(self, w, res, rng, cfg):
        self.w, self.res, self.rng, self.cfg = w, res, rng, cfg
        self.members = {}   # colpath -> {name: token}
        self.kinds = {}
        self.log = []

    def viol(self, sig, msg, extra=None):
        self.res.violation(sig, msg, {"config": self.cfg, "detail": extra, "requests": self.log[-6:]})

    def req(self, op, method, target, headers=(), body=None):
        s, r = self.w.call(op, method, target, list(headers), body, record=False)
        self.log.append({"op": op, "method": method, "target": target, "status": s.status})
        del self.log[:-30]
        return s, r

    def where(self):
        return "%s%s" % (self.w.fe_kind, "" if self.w.prefix == "/" else "+prefix")

    # -------------------------------------------------- dereference
    def deref_member(self, base_target, href, source, colpath):
        """-> name of the member of colpath the href addresses, or None"""
        t = resolve(base_target, href)
        self.res.count("hrefs_dereferenced")
        self.res.count("hrefs:" + source)
        if t is None:
            return None, "unresolvable"
        s, r = self.req("deref", "GET", t)
        if s.eff != 200:
            return None, "GET %s -> %s" % (t, s.eff)
        for nm, tok in self.members.get(colpath, {}).items():
            if tok.encode() in r.body:
                return nm, None
        return None, "GET %s -> 200 but not a member of %s" % (t, colpath)

    def deref_collection(self, base_target, href, source):
        t = resolve(base_target, href)
        self.res.count("hrefs_dereferenced")
        self.res.count("hrefs:" + source)
        if t is None:
            return None, "unresolvable"
        s, r = self.req("deref", "PROPFIND", t, [("Depth", "0"), X.XML_CT], X.propfind([X.P_RESOURCETYPE]))
        if r.status != 207:
            return None, "PROPFIND %s -> %s" % (t, r.status)
        try:
            rs, _ = X.parse_multistatus(r.body)
        except X.MalformedXML:
            return None, "ill-formed"
        if len(rs) != 1:
            return None, "Depth 0 gave %d responses" % len(rs)
        if rs[0].status == 404:
            return None, "PROPFIND %s -> 404 response" % t
        return (t, X.resourcetypes(rs[0]) or []), None

    # -------------------------------------------------- checks
    def check_listing(self, colpath, trailing):
        w, res = self.w, self.res
        target = w.url(colpath)
        if not trailing:
            target = target.rstrip("/")
        src = "propfind1" + ("" if trailing else "-noslash")
        s, r = self.req(src, "PROPFIND", target, [("Depth", "1"), X.XML_CT], X.propfind([X.P_RESOURCETYPE, X.P_ETAG]))
        if r.status != 207:
            self.viol(f"{self.where()}/{src}/listing-refused", f"PROPFIND Depth 1 {target} -> {r.status}")
            return
        try:
            rs, _ = X.parse_multistatus(r.body)
        except X.MalformedXML as e:
            self.viol(f"{self.where()}/{src}/ill-formed", f"PROPFIND Depth 1 {target}: {e}")
            return
        res.evaluations += 1
        members = self.members.get(colpath, {})
        subcols = [p for p in self.members if p != colpath and w.parent_of(p) == colpath]
        addressed = {}
        unresolved = []
        selfseen = 0
        subseen = {}
        for resp in rs:
            href = resp.href or ""
            rt = X.resourcetypes(resp) or []
            if "{DAV:}collection" in rt:
                if not href.endswith("/"):
                    self.viol(f"{self.where()}/{src}/collection-href-without-slash", f"{target}: collection href {href!r} does not end in '/'")
                got, why = self.deref_collection(target, href, src)
                if got is None:
                    self.viol(f"{self.where()}/{src}/collection-href-does-not-resolve", f"{target}: collection href {href!r}: {why}")
                    continue
                t, rt2 = got
                if "{DAV:}collection" not in rt2:
                    self.viol(f"{self.where()}/{src}/collection-href-addresses-non-collection", f"{target}: href {href!r} -> {t} is not a collection")
                norm = t if t.endswith("/") else t + "/"
                # the type a listing reports for a collection: what it was created as; home sets are plain
                for cp, kd in list(self.kinds.items()) + [(hp, "home-set") for hp in ("/user/calendars/", "/user/contacts/")]:
                    if w.url(cp) != norm:
                        continue
                    self.res.count("listed_resourcetype_checks")
                    is_cal, is_ab = (X.P_RT_CAL in rt), (X.P_RT_AB in rt)
                    if (kd == "calendar" and not is_cal) or (kd == "addressbook" and not is_ab) or (kd == "home-set" and (is_cal or is_ab)) or (kd in ("calendar", "addressbook") and is_cal and is_ab):
                        self.viol(f"{self.where()}/{src}/listed-resourcetype-wrong/{kd}", f"{target}: {href!r} ({kd}) is listed with resourcetype {rt!r}")
                if norm == w.url(colpath):
                    selfseen += 1
                else:
                    subseen[norm] = subseen.get(norm, 0) + 1
                continue
            nm, why = self.deref_member(target, href, src, colpath)
            if nm is None:
                unresolved.append((href, why))
            else:
                addressed.setdefault(nm, []).append(href)
        if selfseen != 1:
            self.viol(f"{self.where()}/{src}/target-not-listed-exactly-once", f"{target}: the target itself appears {selfseen} times in its Depth 1 listing")
        exp_sub = {w.url(p): 1 for p in subcols}
        if subseen != exp_sub:
            self.viol(f"{self.where()}/{src}/sub-collections", f"{target}: sub-collections listed {subseen!r}, expected {exp_sub!r}")
        for nm in members:
            hs = addressed.get(nm, [])
            res.count("member_listing_checks")
            res.seen(self.where(), src, feature(nm), len(hs))
            if len(hs) == 1:
                res.count("member_hrefs_ok")
                res.count("ok:" + feature(nm))
            elif len(hs) > 1:
                self.viol(f"{self.where()}/{src}/{feature(nm)}/member-listed-twice", f"{target}: member {nm!r} addressed by {hs!r}")
            else:
                self.viol(f"{self.where()}/{src}/{feature(nm)}/member-href-does-not-resolve-to-it", f"{target}: no emitted href addresses member {nm!r}; unresolved hrefs: {unresolved[:4]!r}")
        extra = len(unresolved) - sum(1 for nm in members if nm not in addressed)
        if extra > 0:
            self.viol(f"{self.where()}/{src}/surplus-href", f"{target}: {extra} emitted href(s) address nothing: {unresolved[:4]!r}")

    def check_large(self, colpath, n):
        """a collection with more members than any buffer a traversal might use: restored from a backup with the git CLI
        (n events, one commit) while the server runs; every way of listing it must name every member once"""
        import subprocess
        w, res = self.w, self.res
        fsp = w.fs_path(colpath)
        os.makedirs(fsp)
        names = ["m%04d.ics" % i for i in range(n)]
        for i, nm in enumerate(names):
            with open(os.path.join(fsp, nm), "wb") as f:
                f.write(("BEGIN:VCALENDAR\r\nVERSION:2.0\r\nPRODID:-//vf//c16//EN\r\nBEGIN:VEVENT\r\nUID:c16-large-%d\r\nDTSTAMP:20240101T000000Z\r\nDTSTART:20240102T100000Z\r\nSUMMARY:e%d\r\nEND:VEVENT\r\nEND:VCALENDAR\r\n" % (i, i)).encode())
        with open(os.path.join(fsp, ".xandikos"), "w") as f:
            f.write("[DEFAULT]\ntype = calendar\n")
        env = dict(w._git_env(), GIT_AUTHOR_NAME="o", GIT_AUTHOR_EMAIL="o@example.com", GIT_COMMITTER_NAME="o", GIT_COMMITTER_EMAIL="o@example.com")
        for cmd in (["git", "init", "-q", fsp], ["git", "-C", fsp, "add", "-A"], ["git", "-C", fsp, "commit", "-q", "-m", "restored"]):
            subprocess.run(cmd, check=True, capture_output=True, env=env)
        want = {w.url(colpath, nm) for nm in names}
        bodies = {"propfind1": ("PROPFIND", X.propfind([X.P_ETAG])), "sync": ("REPORT", X.sync_collection(None)), "query": ("REPORT", X.calendar_query(X.CAL_MATCH_ALL, data=False))}
        for src, (method, body) in bodies.items():
            s, r = self.req("large-" + src, method, w.url(colpath), [("Depth", "1"), X.XML_CT], body)
            res.evaluations += 1
            if r.status != 207:
                self.viol(f"{self.where()}/large-collection/{src}/refused", f"{method} on a collection of {n} members -> {r.status}")
                continue
            rs, _ = X.parse_multistatus(r.body)
            got = [resolve(w.url(colpath), x.href or "") for x in rs]
            gotm = [g for g in got if g is not None and g.rstrip("/") != w.url(colpath).rstrip("/")]
            res.count("large_collection_listings")
            res.count("large_collection_members_listed", len(gotm))
            missing = sorted(want - set(gotm))
            if missing or len(gotm) != len(set(gotm)) or set(gotm) - want:
                self.viol(f"{self.where()}/large-collection/{src}/listing-not-exact", f"{method} ({src}) on a collection of {n} members: {len(missing)} missing (first {missing[:3]!r}), "
                          f"{len(gotm) - len(set(gotm))} repeated, {len(set(gotm) - want)} unknown")

    def check_listing_hrefprops(self, colpath):
        """href-valued properties of the *children* in a Depth 1 listing with an explicit prop list"""
        w = self.w
        target = w.url(colpath)
        s, r = self.req("propfind1-hrefprops", "PROPFIND", target, [("Depth", "1"), X.XML_CT], X.propfind(["{DAV:}add-member", X.P_RESOURCETYPE, X.P_CUP]))
        if r.status != 207:
            return
        try:
            rs, _ = X.parse_multistatus(r.body)
        except X.MalformedXML:
            return
        for resp in rs:
            rt = X.resourcetypes(resp) or []
            if "{DAV:}collection" not in rt:
                continue
            own = resolve(target, resp.href or "")
            for h in X.prop_hrefs(resp, "{DAV:}add-member") or []:
                t = resolve(target, h)
                self.res.evaluations += 1
                self.res.count("hrefs_dereferenced")
                self.res.count("hrefs:add-member-in-listing")
                self.res.seen(self.where(), "add-member", own == target)
                if t is None or own is None or urllib.parse.unquote(t).rstrip("/") != urllib.parse.unquote(own).rstrip("/"):
                    self.viol(f"{self.where()}/propfind1-hrefprops/add-member-of-child-addresses-another-collection",
                              f"PROPFIND Depth 1 {target}: the response for {resp.href!r} carries add-member {h!r} (resolves to {t!r}): a POST there would not add to that collection")

    def check_depth0(self, target, kind_is_collection, src):
        s, r = self.req(src, "PROPFIND", target, [("Depth", "0"), X.XML_CT], X.propfind([X.P_RESOURCETYPE]))
        self.res.evaluations += 1
        if r.status != 207:
            self.viol(f"{self.where()}/{src}/refused", f"PROPFIND Depth 0 {target} -> {r.status}")
            return
        rs, _ = X.parse_multistatus(r.body)
        if len(rs) != 1:
            self.viol(f"{self.where()}/{src}/not-exactly-one-response", f"PROPFIND Depth 0 {target} gave {len(rs)} responses")
            return
        href = rs[0].href or ""
        t = resolve(target, href)
        self.res.count("hrefs_dereferenced")
        self.res.count("hrefs:" + src)
        want = target if not kind_is_collection else (target if target.endswith("/") else target + "/")
        if t is None or urllib.parse.unquote(t) != urllib.parse.unquote(want):
            self.viol(f"{self.where()}/{src}/href-is-not-the-target", f"PROPFIND Depth 0 {target}: href {href!r} resolves to {t!r}")
        if kind_is_collection and not href.endswith("/"):
            self.viol(f"{self.where()}/{src}/collection-href-without-slash", f"PROPFIND Depth 0 {target}: href {href!r}")

    def check_report(self, colpath, kind, which):
        w, res = self.w, self.res
        target = w.url(colpath)
        members = self.members.get(colpath, {})
        if which == "sync":
            body = X.sync_collection(None)
        elif which == "multiget":
            body = X.multiget(kind, [w.url(colpath, n) for n in members], data=False)
        else:
            body = X.calendar_query(X.CAL_MATCH_ALL, data=False) if kind == "calendar" else X.addressbook_query(X.CARD_MATCH_ALL, data=False)
        s, r = self.req(which, "REPORT", target, [("Depth", "1"), X.XML_CT], body)
        if r.status != 207:
            self.viol(f"{self.where()}/{which}/refused", f"REPORT {which} {target} -> {r.status}")
            return
        try:
            rs, _ = X.parse_multistatus(r.body)
        except X.MalformedXML as e:
            self.viol(f"{self.where()}/{which}/ill-formed", f"{e}")
            return
        res.evaluations += 1
        addressed = {}
        unresolved = []
        for resp in rs:
            if resp.status == 404 or (resp.props == {} and resp.status not in (None, 200)):
                continue
            nm, why = self.deref_member(target, resp.href or "", which, colpath)
            if nm is None:
                unresolved.append((resp.href, why))
            else:
                addressed.setdefault(nm, []).append(resp.href)
        for nm in members:
            hs = addressed.get(nm, [])
            res.seen(self.where(), which, feature(nm), len(hs))
            res.count("member_report_checks")
            if len(hs) == 1:
                res.count("member_hrefs_ok")
            elif len(hs) > 1:
                self.viol(f"{self.where()}/{which}/{feature(nm)}/member-answered-twice", f"{target}: {nm!r} by {hs!r}")
            elif unresolved:
                # completeness of report results is C07 / C11 / C12 / C17's question;
                # here only: an emitted href that addresses nothing
                self.viol(f"{self.where()}/{which}/{feature(nm)}/member-href-does-not-resolve-to-it", f"{target}: REPORT {which}: no emitted href addresses member {nm!r}; unresolved: {unresolved[:4]!r}")
            else:
                res.count("report_omits_member:" + which)

    def check_misc_hrefs(self, colpath):
        """hrefs in PROPPATCH bodies, 404 PROPFIND bodies, precondition errors, property values"""
        w = self.w
        target = w.url(colpath)
        # PROPPATCH response
        s, r = self.req("proppatch", "PROPPATCH", target, [X.XML_CT], X.proppatch(sets=[(X.P_DISPLAYNAME, "x")]))
        if r.status == 207:
            rs, _ = X.parse_multistatus(r.body)
            for resp in rs:
                got, why = self.deref_collection(target, resp.href or "", "proppatch-response")
                if got is None or (got[0].rstrip("/") != target.rstrip("/")):
                    self.viol(f"{self.where()}/proppatch-response/href-is-not-the-target", f"PROPPATCH {target}: response href {resp.href!r} does not address the patched collection ({why or got})")
                self.res.evaluations += 1
        # PROPFIND of a missing resource
        missing = w.url(colpath, "no-such-member.ics")
        s, r = self.req("propfind-404", "PROPFIND", missing, [("Depth", "0"), X.XML_CT], X.propfind([X.P_ETAG]))
        if r.status == 207:
            rs, _ = X.parse_multistatus(r.body)
            for resp in rs:
                t = resolve(missing, resp.href or "")
                self.res.count("hrefs_dereferenced")
                self.res.count("hrefs:propfind-404-body")
                self.res.evaluations += 1
                if t is None or urllib.parse.unquote(t) != urllib.parse.unquote(missing):
                    self.viol(f"{self.where()}/propfind-404-body/href-is-not-the-target", f"PROPFIND {missing}: 404 response href {resp.href!r} resolves to {t!r}")
        # precondition error body (uid conflict / invalid data)
        bad = w.url(colpath, "bad.ics" if self.kinds[colpath] == "calendar" else "bad.vcf")
        s, r = self.req("put-invalid", "PUT", bad, [("Content-Type", W.CT.get(self.kinds[colpath], "text/calendar"))], b"garbage")
        if r.status == 207:
            try:
                rs, _ = X.parse_multistatus(r.body)
            except X.MalformedXML:
                rs = []
            for resp in rs:
                t = resolve(bad, resp.href or "")
                self.res.count("hrefs_dereferenced")
                self.res.count("hrefs:precondition-error-body")
                self.res.evaluations += 1
                if t is None or urllib.parse.unquote(t) != urllib.parse.unquote(bad):
                    self.viol(f"{self.where()}/precondition-error-body/href-is-not-the-target", f"PUT {bad}: error response href {resp.href!r} resolves to {t!r}")

    def check_prop_hrefs(self):
        w = self.w
        principal = w.url("/user/")
        props = [X.P_CUP, "{DAV:}principal-URL", X.P_CALHOME, X.P_ABHOME, "{DAV:}owner", "{urn:ietf:params:xml:ns:caldav}schedule-inbox-URL",
                 "{urn:ietf:params:xml:ns:caldav}calendar-user-address-set"]
        for target in (principal, w.url("/user/calendars/cal0/")):
            s, r = self.req("propfind-hrefprops", "PROPFIND", target, [("Depth", "0"), X.XML_CT], X.propfind(props))
            if r.status != 207:
                continue
            rs, _ = X.parse_multistatus(r.body)
            for p in props:
                hs = X.prop_hrefs(rs[0], p)
                for h in hs or []:
                    if h.startswith("mailto:"):
                        continue
                    got, why = self.deref_collection(target, h, "href-valued-property")
                    self.res.evaluations += 1
                    self.res.seen(self.where(), "prop", p, got is not None)
                    if got is None:
                        self.viol(f"{self.where()}/href-valued-property/{X.q(p) if p.startswith('{DAV:}') or 'caldav' in p or 'carddav' in p else p}/does-not-resolve", f"PROPFIND {target}: {p} = {h!r}: {why}")

    def check_post_location(self, colpath, kind):
        w, rng = self.w, self.rng
        tok = w.new_token()
        body = gen.ical(rng, "post-" + tok, tok, rich=False) if kind == "calendar" else gen.vcard(rng, "post-" + tok, tok, rich=False)
        target = w.url(colpath)
        s, r = self.req("post", "POST", target, [("Content-Type", W.CT[kind])], body)
        if not W.World.success(s.eff):
            return
        loc = r.header("Location")
        self.res.evaluations += 1
        self.res.count("hrefs:post-location")
        self.res.count("hrefs_dereferenced")
        if not loc:
            self.viol(f"{self.where()}/post-location/missing", f"POST {target} -> {s.status} without Location")
            return
        t = resolve(target, loc)
        ok = False
        if t is not None:
            s2, r2 = self.req("deref", "GET", t)
            ok = s2.eff == 200 and tok.encode() in r2.body
        if not ok:
            self.viol(f"{self.where()}/post-location/does-not-resolve-to-created-member", f"POST {target}: Location {loc!r} resolves to {t!r}, which does not return the created member")
        # learn the name for later listings
        name = urllib.parse.unquote(loc.rsplit("/", 1)[-1])
        self.members[colpath][name] = tok


def run_shard(args):
    res = common.Result()
    rng = random.Random(args["seed"])
    base = common.mkscratch("c16")
    w = W.World(base, fe_kind=args["fe"], prefix=args.get("prefix", "/"), seed=args["seed"], autocreate="defaults")
    w.res = res
    try:
        w.start()
        cfg = {k: args[k] for k in ("fe", "prefix", "seed", "names", "large") if k in args}
        run = Runner(w, res, rng, cfg)
        layout = [("/user/calendars/cal0/", "calendar"), ("/user/contacts/ab0/", "addressbook"), ("/user/calendars/pl0/", "plain"), ("/user/calendars/pl0/nested/", "plain"), ("/top/", "plain"),
                  ("/user/calendars/cal0/sub/", "plain"), ("/user/contacts/ab0/sub/", "plain"),
                  # collections whose names begin with a dot are collections like any other (only the stores' own .git is not)
                  ("/user/calendars/.hidden/", "calendar"), ("/user/calendars/cal0/.att/", "plain"), ("/user/contacts/.abx/", "addressbook")]
        res.count("dot_named_collections_tried", 3)
        for p, kind in layout:
            s, r = w.mkcol(p, kind)
            if not W.World.success(s.eff):
                res.inconclusive.append(f"MKCOL {p} refused: {s.eff}")
                continue
            run.members[p] = {}
            run.kinds[p] = kind
        for p, kind in layout:
            if p not in run.members:
                continue
            ext = {"calendar": ".ics", "addressbook": ".vcf", "plain": ".txt"}[kind]
            n = args["names"] if kind != "plain" else max(2, args["names"] // 3)
            for i, nm in enumerate(gen_names(rng, n, ext)):
                tok = w.new_token()
                uid = "c16-%s" % tok
                body = gen.ical(rng, uid, tok, rich=False) if kind == "calendar" else (gen.vcard(rng, uid, tok, rich=False) if kind == "addressbook" else ("file " + tok).encode())
                t = w.url(p, nm)
                s, r = run.req("put", "PUT", t, [("Content-Type", W.ctype_for(nm))], body)
                res.count("names_tried")
                if not W.World.success(s.eff):
                    res.count("names_refused")
                    res.count("names_refused:" + feature(nm))
                    continue
                s2, r2 = run.req("get", "GET", t)
                if s2.eff != 200 or tok.encode() not in r2.body:
                    res.count("names_not_readable_at_own_url")
                    run.viol(f"{run.where()}/own-url/{feature(nm)}/created-member-not-readable-at-the-url-it-was-put-to", f"PUT {t} -> {s.eff} but GET {t} -> {s2.eff}")
                    continue
                run.members[p][nm] = tok
                res.count("names_stored")
                res.count("stored:" + feature(nm))
        for p, kind in layout:
            if p not in run.members:
                continue
            run.check_depth0(w.url(p), True, "propfind0")
            run.check_depth0(w.url(p).rstrip("/"), True, "propfind0-noslash")
            for nm in list(run.members[p])[:3]:
                run.check_depth0(w.url(p, nm), False, "propfind0-member")
            run.check_listing(p, True)
            run.check_listing(p, False)
            run.check_report(p, kind, "sync")
            if kind in ("calendar", "addressbook"):
                run.check_report(p, kind, "multiget")
                run.check_report(p, kind, "query")
                run.check_post_location(p, kind)
            run.check_misc_hrefs(p)
        # the home sets: the collections created above plus the defaults of --defaults
        for hp, dp, dk in (("/user/calendars/", "/user/calendars/calendar/", "calendar"), ("/user/contacts/", "/user/contacts/addressbook/", "addressbook")):
            run.members.setdefault(dp, {})
            run.kinds[dp] = dk
            run.members[hp] = {}
            run.check_listing(hp, True)
            del run.members[hp]
        for p in ("/user/calendars/", "/user/contacts/", "/user/calendars/pl0/", "/user/calendars/cal0/"):
            run.check_listing_hrefprops(p)
        run.check_prop_hrefs()
        if args.get("large"):
            run.check_large("/user/calendars/restored-large/", args["large"])
        res.sample({"config": cfg, "names": {p: list(m)[:6] for p, m in run.members.items()}})
    except Exception:
        res.inconclusive.append("harness exception: " + traceback.format_exc()[-1500:])
    finally:
        w.stop()
        common.rmtree(base)
    return res


def check(tier, seed, t0):
    th = tier == "thorough"
    shards = []
    combos = [(fe, pre) for fe in ("wsgi", "aio") for pre in ("/", "/dav/", "/a/b/")]
    reps = 5 if not th else 20
    for rep in range(reps):
        for fe, pre in combos:
            shards.append({"fe": fe, "prefix": pre, "seed": seed * 1000 + len(shards), "names": 14 if not th else 30})
            if rep == 0 and pre != "/a/b/":
                shards[-1]["large"] = 1003 + len(shards)
    if th:
        for pre in ("/", "/dav/"):
            shards.append({"fe": "wsgihost", "prefix": pre, "seed": seed * 1000 + len(shards), "names": 30})
    results, failures = common.run_shards("vf.props.c16", shards, timeout_s=300 if not th else 2400)
    merged = common.merge(results)
    c = merged["counters"]
    k = 1 if not th else 10
    stored = c.get("names_stored", 0)
    guards = [("names stored", stored, 800 * k), ("hrefs dereferenced", c.get("hrefs_dereferenced", 0), 6000 * (1 if not th else 7)),
              ("share of generated names stored (percent)", 100 * stored // max(1, c.get("names_tried", 0)), 80)]
    guards.append(("listings of a collection with more than 1000 members", c.get("large_collection_listings", 0), 8))
    guards.append(("collections with dot-named sub-collections", c.get("dot_named_collections_tried", 0), 30))
    for f in ("colon", "question", "hash", "semicolon", "percent", "space", "plus", "nonascii", "other-special", "pct-escape-literal", "latin1-pair-that-is-valid-utf8"):
        guards.append(("stored names with feature " + f, c.get("stored:" + f, 0), 3))
    for src in ("propfind1", "propfind1-noslash", "sync", "multiget", "query", "post-location", "proppatch-response", "propfind-404-body", "precondition-error-body", "href-valued-property", "add-member-in-listing"):
        guards.append(("hrefs from " + src, c.get("hrefs:" + src, 0), 10))
    return common.finish(PROP, tier, seed, "exploration", merged, failures, RULE, t0, guards=guards,
                         assumptions=["clients percent-encode every octet outside the unreserved set when they build a member URL", "relative hrefs are resolved with urllib.parse.urljoin (RFC 3986 section 5)",
                                      "a member is identified by the unique token in its body"])


def replay(path):
    import json
    rp = json.load(open(path))
    cfg = rp["witness"]["config"]
    res = run_shard(dict(cfg))
    for v in res.violations:
        print("VIOLATION property=%s replay=%s" % (PROP, path))
        print("  sig=%s :: %s" % (v["sig"], v["msg"][:300]))
    return 1 if res.violations else 0


# (what later rounds of seeded changes added to the workload; part of the evidence's description of the check)
RULE += "; " + 'dot-named collections; a calendar of more than 1000 events restored with the git CLI under the running server must be listed exactly by PROPFIND, sync-collection and calendar-query'
