"""C13  No request can touch the file system outside the data directory."""
import hashlib
import json
import os
import random
import sys
import traceback

from vf import common, gen, world as W, davxml as X, agent as A

PROP = "C13"
RULE = ("request targets from an adversarial grammar (dot segments at every depth, %2e / %2E%2e / .%2e, ..%2f, %2f, //, /./, trailing dots, ..;, back-slashes, %00, "
        "absolute-form targets, 4 kB segments) aimed at canary files, a sibling git collection and fresh names outside the root, for GET, HEAD, PUT, POST, DELETE, MKCOL, "
        "MKCALENDAR, PROPFIND 0/1, PROPPATCH and REPORT (same strings also as hrefs inside multiget / expand-property bodies), sent raw to the real CLI server and as "
        "un-normalised PATH_INFO to the WSGI callable; monitors: (1) every Python audit event of the server for open/listdir/scandir/mkdir/rename/remove/rmdir/rmtree/... whose "
        "path resolves outside <root> and outside a static allow-list (interpreter, site-packages, /repo, zoneinfo, mime tables, HOME, TMPDIR) is a violation, (2) before/after "
        "snapshot (names, sizes, hashes) of everything around the root, (3) canary tokens in response bodies; thorough adds strace -f of the server as a second observer below "
        "the audit layer; distinct = distinct (front end, method, target shape, status)")

UP = ["..", "%2e%2e", "%2E%2E", ".%2e", "%2e.", "..%2f..", "..%2F", "%2e%2e%2f", "..;", "..;/..", "..\\", "\\..", "..%5c", "...", "....", ".. ", "%c0%ae%c0%ae", "..%00", "..%252f", "%252e%252e"]
NEUTRAL = [".", "", "%2e", "./", "//"]
INSIDE = ["user", "calendars", "contacts", "cal0", "ab0", "a.ics", "c.vcf", "top"]
OUTSIDE_EXISTING = ["canary/secret.txt", "canary/", "sibling-cal/", "sibling-cal/m.ics", "sibling-cal/.git/config", "canary/sub/deep.txt", "home/.gitconfig"]
METHODS = ["GET", "HEAD", "PUT", "POST", "DELETE", "MKCOL", "MKCALENDAR", "PROPFIND0", "PROPFIND1", "PROPPATCH", "REPORT-multiget", "REPORT-sync", "REPORT-expand", "OPTIONS"]
CANARY = "CANARY-7f3a9b-TOKEN"
BASE_ABS = [""]   # absolute path of the directory that surrounds the data root (set per shard)


def gen_target(rng, depth_in_root, n):
    """A request path (without route prefix). Net '..' count is bounded so
    that a successful escape stays inside the scratch base."""
    shape = rng.choice(["up-from-root", "up-from-collection", "up-from-member", "encoded-slash", "absolute-form", "double-slash", "plain-outside-name", "long", "nul", "backslash",
                        "double-encoded-last-segment", "double-encoded-last-segment", "leading-slashes", "compat-chars-last-segment", "dots-after-a-segment-with-url-syntax", "dots-after-a-segment-with-url-syntax", "dot-segments-only", "dot-segments-only"])
    ups = rng.randint(1, 3)
    upseg = [rng.choice(UP) for _ in range(ups)]
    tail = rng.choice(OUTSIDE_EXISTING + ["evil-%d" % n, "evil-%d/" % n, "evil-%d/x.ics" % n, "sibling-cal/new-%d.ics" % n, "canary/new-%d.ics" % n,
                                          # siblings whose names begin with the name of the data root ('root'): a prefix test on strings lets them through
                                          "root-archive/new-%d/" % n, "root-archive/new-%d" % n, "root2x/new-%d/" % n, "rootkit-%d/" % n, "root-archive/kept.txt"])
    if shape == "double-encoded-last-segment":
        # the whole escape hides in the last segment, percent-encoded twice
        col = rng.choice(["/user/calendars/cal0/", "/user/contacts/ab0/", "/top/"])
        depth = col.strip("/").count("/") + 1
        t = rng.choice(["canary/new-%d.ics" % n, "sibling-cal/new-%d.ics" % n, "canary/secret.txt", "evil-%d.ics" % n])
        enc = rng.choice([("%252F", "%252e%252e"), ("%252F", ".."), ("%252f", ".."), ("%255C", "..")])
        seg = (enc[1] + enc[0]) * (depth + rng.randint(0, 1)) + t.replace("/", enc[0])
        return col + seg, shape
    if shape == "compat-chars-last-segment":
        # no ASCII dot or slash at all: characters whose Unicode compatibility (NFKC/NFKD) form is '.', '..' or '/'
        import urllib.parse
        col = rng.choice(["/user/calendars/cal0/", "/user/contacts/ab0/", "/top/"])
        depth = col.strip("/").count("/") + 1
        t = rng.choice(["canary/new-%d.ics" % n, "sibling-cal/new-%d.ics" % n, "canary/secret.txt", "evil-%d.ics" % n])
        up = rng.choice(["\u2025", "\uff0e\uff0e", "\u2024\u2024", ".\uff0e"])
        sl = rng.choice(["\uff0f", "\uff0f", "\u2215", "\u2044"])
        seg = (up + sl) * (depth + rng.randint(0, 1)) + t.replace("/", sl)
        return col + urllib.parse.quote(seg, safe=""), shape
    if shape == "dots-after-a-segment-with-url-syntax":
        # an existing collection whose (decoded) name contains '?', '#' or ';': a URL function applied to the decoded path
        # would take the rest for a query / fragment / parameters and leave the dot segments in it alone
        first = rng.choice(["q%3Fx", "h%23y", "semi%3Bz", "q%3Fx/deeper"])
        n_up = first.count("/") + 1 + rng.randint(1, 2)
        return "/" + first + "/" + "/".join([".."] * n_up + [tail]), shape
    if shape == "dot-segments-only":
        # nothing but a way up: the target is the root or something above it (never a name to be made or found there)
        lead = rng.choice(["/", "//", "//", "///", "/user/../", "//user/../", "/top/../", "//./"])
        return lead + "/".join([rng.choice(["..", "..", "%2e%2e", ".%2E"]) for _ in range(ups)]) + rng.choice(["", "", "/", "/."]), shape
    if shape == "leading-slashes":
        k = rng.randint(2, 4)
        return "/" * k + rng.choice(["canary/secret.txt", "canary/", "sibling-cal/m.ics", "evil-%d/" % n]).join(["", ""]) if False else "/" * k + os.path.join(BASE_ABS[0].lstrip("/"), tail), shape
    if shape == "up-from-root":
        segs = upseg + [tail]
        path = "/" + "/".join(segs)
    elif shape == "up-from-collection":
        pre = rng.choice([["user"], ["user", "calendars"], ["user", "calendars", "cal0"], ["top"]])
        segs = pre + [rng.choice(UP) for _ in range(len(pre) + ups - 1)] + [tail]
        path = "/" + "/".join(segs)
    elif shape == "up-from-member":
        segs = ["user", "calendars", "cal0", "a.ics"] + [rng.choice(UP) for _ in range(3 + ups)] + [tail]
        path = "/" + "/".join(segs)
    elif shape == "encoded-slash":
        path = "/user%2f..%2f..%2f" + tail if rng.random() < 0.5 else "/..%2f" * ups + tail
        if not path.startswith("/"):
            path = "/" + path
    elif shape == "absolute-form":
        path = "/" + "/".join(upseg + [tail])
        return "http://localhost" + path, shape
    elif shape == "double-slash":
        path = "//" + "/".join(upseg + [tail]) if rng.random() < 0.5 else "/user//" + "/".join([rng.choice(UP)] * (ups + 1) + [tail])
    elif shape == "plain-outside-name":
        path = "/" + rng.choice(NEUTRAL) + "/" + "/".join(upseg) + "/" + tail
    elif shape == "long":
        path = "/" + "A" * rng.choice([300, 1000, 4000]) + "/" + "/".join(upseg + [upseg[0]] + [tail])
    elif shape == "nul":
        path = "/" + "/".join(upseg) + "/" + tail + "%00.ics"
    else:
        path = "/..\\..\\" + tail.replace("/", "\\")
    return path, shape


def snapshot(base, exclude):
    out = {}
    for root, dirs, files in os.walk(base):
        if any(root == e or root.startswith(e + os.sep) for e in exclude):
            dirs[:] = []
            continue
        dirs[:] = [d for d in dirs if not any(os.path.join(root, d) == e for e in exclude)]
        for d in dirs:
            out[os.path.join(root, d) + "/"] = "dir"
        for f in files:
            p = os.path.join(root, f)
            if p in exclude:
                continue
            try:
                with open(p, "rb") as fh:
                    out[p] = hashlib.sha256(fh.read()).hexdigest()[:16]
            except OSError:
                out[p] = "unreadable"
    return out


def load_events(logpath, after_seq=0):
    ev = []
    if not os.path.exists(logpath):
        return ev
    with open(logpath, "rb") as f:
        for ln in f:
            try:
                rec = json.loads(ln)
            except Exception:
                continue
            if rec[0] > after_seq:
                ev.append(rec)
    return ev


def judge_events(events, root, base, allow_read, allow_write, res, viol, fe):
    root = os.path.realpath(root)
    n_in = n_out_allowed = 0
    for rec in events:
        seq, event, a0 = rec[0], rec[1], rec[2]
        mut = rec[-2]
        cwd = rec[-1]
        paths = []
        if event == "subprocess.Popen":
            # dulwich runs '<controldir>/hooks/pre-commit' relative to cwd=<repo>
            pc = rec[3] if len(rec) > 5 and isinstance(rec[3], str) else cwd
            if isinstance(a0, str):
                paths.append(a0 if os.path.isabs(a0) else os.path.join(pc or "/", a0))
        elif event in ("os.remove", "os.rmdir", "os.mkdir", "os.chmod", "os.utime") and len(rec) > 5 and isinstance(rec[3], int) and rec[3] >= 0 and isinstance(a0, str) and not os.path.isabs(a0):
            # relative to a directory descriptor (shutil.rmtree); the rmtree event itself carries the path
            res.count("fs_events_dirfd_relative")
            continue
        elif isinstance(a0, str):
            paths.append(a0)
        if event in ("os.rename", "os.link", "os.symlink", "shutil.move", "shutil.copyfile", "shutil.copytree") and len(rec) > 5 and isinstance(rec[3], str):
            paths.append(rec[3])
        for p in paths:
            if not os.path.isabs(p):
                p = os.path.join(cwd or "/", p)
            lex = os.path.normpath(p)
            real = os.path.realpath(p)
            inside = all(x == root or x.startswith(root + os.sep) for x in (lex, real))
            res.count("fs_events_judged")
            if inside:
                n_in += 1
                continue
            allowed = allow_write if mut else allow_read
            if any(real == a or real.startswith(a.rstrip(os.sep) + os.sep) for a in allowed) and any(lex == a or lex.startswith(a.rstrip(os.sep) + os.sep) for a in allowed):
                n_out_allowed += 1
                continue
            kind = "mutation" if mut else ("listing" if event in ("os.listdir", "os.scandir", "os.walk", "glob.glob") else "read")
            where = "inside-scratch-base" if real.startswith(os.path.realpath(base) + os.sep) else "outside-scratch-base"
            viol(f"{fe}/fs-access-outside-root/{kind}/{event}", f"server performed {event}({p!r}) = {real} which is outside the data root {root} ({where})", {"event": rec})
    res.count("fs_events_inside_root", n_in)
    res.count("fs_events_allowlisted", n_out_allowed)


def static_allow():
    import sysconfig
    reads = {sys.prefix, sys.base_prefix, sys.exec_prefix, "/usr", "/lib", "/lib64", "/etc", "/proc", "/dev", "/sys", "/opt", common.REPO, common.HOME, "/bin", "/sbin"}
    for k in ("stdlib", "platstdlib", "purelib", "platlib"):
        try:
            reads.add(sysconfig.get_paths()[k])
        except Exception:
            pass
    return sorted(os.path.realpath(x) for x in reads if x)


def run_shard(args):
    res = common.Result()
    rng = random.Random(args["seed"])
    top = common.mkscratch("c13")
    # nest the root so that a successful escape of a few levels stays in `top`
    base = os.path.join(top, "l1", "l2", "l3", "l4")
    os.makedirs(base)
    cfg = {k: args[k] for k in ("fe", "prefix", "seed", "requests", "strace", "outer_repo", "root_repo") if k in args}
    violations_n = [0]

    def viol(sig, msg, extra=None):
        violations_n[0] += 1
        res.violation(sig, msg, {"config": cfg, "detail": extra, "recent_requests": reqlog[-8:]})

    reqlog = []
    w = W.World(base, fe_kind=args["fe"], prefix=args.get("prefix", "/"), seed=args["seed"], autocreate="defaults")
    w.res = res
    BASE_ABS[0] = base
    logpath = os.path.join(top, "agent.log")
    strace_log = os.path.join(top, "strace.log")
    try:
        # surroundings
        os.makedirs(os.path.join(base, "canary", "sub"))
        for sib in ("root-archive", "root2x"):
            os.makedirs(os.path.join(base, sib))
        with open(os.path.join(base, "root-archive", "kept.txt"), "w") as f:
            f.write("sibling of the root " + CANARY + "\n")
        for rel in ("canary/secret.txt", "canary/sub/deep.txt", "outside.ics"):
            with open(os.path.join(base, rel), "w") as f:
                f.write("BEGIN:VCALENDAR\r\nX-SECRET:" + CANARY + "\r\nEND:VCALENDAR\r\n")
        if args.get("outer_repo"):
            # deployment in which the data directory lives inside somebody else's git work tree
            # (a home directory kept under git): that repository is not the server's to read or write
            import subprocess
            genv = common.worker_env({"HOME": os.path.join(base, "home-setup"), "GIT_AUTHOR_NAME": "o", "GIT_AUTHOR_EMAIL": "o@example.com", "GIT_COMMITTER_NAME": "o", "GIT_COMMITTER_EMAIL": "o@example.com"})
            os.makedirs(os.path.join(base, "home-setup"), exist_ok=True)
            with open(os.path.join(base, "notes.txt"), "w") as f:
                f.write("outer repository file " + CANARY + "\n")
            with open(os.path.join(base, "outer.ics"), "w") as f:
                f.write("BEGIN:VCALENDAR\r\nX-SECRET:" + CANARY + "\r\nEND:VCALENDAR\r\n")
            for cmd in (["git", "init", "-q", base], ["git", "-C", base, "add", "notes.txt", "outer.ics"], ["git", "-C", base, "commit", "-q", "-m", "outer"]):
                subprocess.run(cmd, check=True, capture_output=True, env=genv)
            res.count("shards_with_outer_repository")
        os.makedirs(os.path.join(base, "home"), exist_ok=True)
        with open(os.path.join(base, "home", ".gitconfig"), "w") as f:
            f.write("[user]\n\tname = vf\n\temail = vf@example.com\n# " + CANARY + "\n")
        os.environ["HOME"] = os.path.join(base, "home")
        from vf import storedrv
        st = storedrv.open_store("tree", os.path.join(base, "sibling-cal"), create=True)
        st.set_type("calendar")
        st.import_one("m.ics", "text/calendar", [gen.ical(rng, "sib", CANARY, rich=False)])
        del st
        allow_read = static_allow() + [os.path.join(base, "home"), os.path.join(base, "tmp")]
        allow_write = [os.path.join(base, "tmp")]
        arm_seq = 0
        ag = None
        os.makedirs(os.path.join(base, "tmp"), exist_ok=True)
        os.makedirs(w.root, exist_ok=True)
        if args.get("root_repo"):
            # deployment in which the data directory is itself a git repository (`git init` there, for backups)
            import subprocess
            subprocess.run(["git", "init", "-q", w.root], check=True, capture_output=True, env=common.worker_env({"HOME": os.path.join(base, "home")}))
            res.count("shards_whose_data_directory_is_a_repository")
        if args["fe"] == "wsgi":
            import tempfile
            os.environ["TMPDIR"] = os.path.join(base, "tmp")
            tempfile.tempdir = None
            os.chdir(w.root)   # relative paths (dir_fd based rmtree internals) then resolve inside the root
            ag = A.install(log=logpath)
            w.start()
        else:
            w.agent = {"log": logpath}
            from vf import fe as FE
            w.fe = FE.AioFE(w.root, w.base, principal=w.principal, autocreate=w.autocreate, prefix=w.prefix, agent=w.agent, start=False)
            w.fe.cwd = w.root
            if args.get("strace"):
                # second observer below the audit layer
                w.fe.wrap = ["strace", "-f", "-qq", "-e", "trace=%file", "-o", strace_log]
            w.fe.start()
            allow_write += [os.path.join(base, f) for f in os.listdir(base) if f.endswith(".log") or f.endswith(".sock")]
        w.mkcol("/user/calendars/cal0/", "calendar")
        w.mkcol("/user/contacts/ab0/", "addressbook")
        w.mkcol("/top/", "plain")
        for odd in ("/q%3Fx/", "/q%3Fx/deeper/", "/h%23y/", "/semi%3Bz/"):
            w.call("setup", "MKCOL", w.prefix.rstrip("/") + odd, [], None, record=False)
        w.put("/user/calendars/cal0/", "a.ics", gen.ical(rng, "in-root", "inside", rich=False))
        w.put("/user/contacts/ab0/", "c.vcf", gen.vcard(rng, "in-root", "inside", rich=False))
        if ag is not None:
            ag.enabled = False
        before = snapshot(top, exclude=[w.root, os.path.join(base, "root2"), os.path.join(base, "tmp"), logpath, strace_log] + [os.path.join(base, f) for f in os.listdir(base) if f.endswith(".log") or f.endswith(".sock")])
        if ag is not None:
            arm_seq = ag.seq
            ag.enabled = True
        reached = tried = 0
        for i in range(args["requests"]):
            target, shape = gen_target(rng, 0, i)
            if rng.random() < 0.08:
                # ordinary requests on the plain directories of the root (no store of their own)
                shape = "ordinary-below-plain-directory"
                target = rng.choice(["/user/", "/user/calendars/", "/", "/user/contacts/"]) + rng.choice(["notes.txt", "outer.ics", "planted-%d.ics" % i, "", "canary/secret.txt"])
            if not target.startswith("http://"):
                target = w.prefix.rstrip("/") + target if rng.random() < 0.8 else target
            m = rng.choice(METHODS)
            if shape == "dot-segments-only" and rng.random() < 0.4:
                m = "DELETE"     # (the request that would do most harm there)
            hs, body = [], None
            ical = gen.ical(rng, "evil-%d" % i, "evil", rich=False)
            if m == "PUT":
                method, hs, body = "PUT", [("Content-Type", "text/calendar")], ical
            elif m == "POST":
                method, hs, body = "POST", [("Content-Type", "text/calendar")], ical
            elif m in ("PROPFIND0", "PROPFIND1"):
                method, hs, body = "PROPFIND", [("Depth", m[-1]), X.XML_CT], X.propfind([X.P_RESOURCETYPE, X.P_ETAG, X.P_DISPLAYNAME])
            elif m == "PROPPATCH":
                method, hs, body = "PROPPATCH", [X.XML_CT], X.proppatch(sets=[(X.P_DISPLAYNAME, "evil")])
            elif m == "MKCOL":
                method, hs, body = ("MKCOL", [X.XML_CT], X.mkcol_ext("calendar", [(X.P_DISPLAYNAME, "evil")])) if rng.random() < 0.5 else ("MKCOL", [], None)
            elif m == "MKCALENDAR":
                method, hs, body = "MKCALENDAR", [X.XML_CT], X.mkcalendar([(X.P_DISPLAYNAME, "evil")])
            elif m == "REPORT-multiget":
                hrefs = [gen_target(rng, 0, i * 10 + k)[0] for k in range(3)]
                hrefs = [h if h.startswith("http") else w.prefix.rstrip("/") + h for h in hrefs]
                method, hs, body = "REPORT", [("Depth", "1"), X.XML_CT], X.multiget("calendar", hrefs)
                if rng.random() < 0.6:
                    target = w.url("/user/calendars/cal0/")
            elif m == "REPORT-sync":
                method, hs, body = "REPORT", [("Depth", "1"), X.XML_CT], X.sync_collection(None)
            elif m == "REPORT-expand":
                method, hs = "REPORT", [("Depth", "0"), X.XML_CT]
                body = f'<?xml version="1.0"?><D:expand-property {X.NS}><D:property name="current-user-principal"><D:property name="displayname"/></D:property></D:expand-property>'.encode()
            else:
                method = m
            if rng.random() < 0.1:
                # the name of a new member chosen by the request's content instead of its URL: POST (RFC 5995 add-member)
                # to an existing collection with a UID / a Slug header that spell a path
                ups_ = rng.randint(1, 7)
                tail_ = rng.choice(["pwned-%d" % i, "canary/secret.txt", "outside.ics", "sibling-cal/m.ics", "root-archive/kept.txt"])
                hostile = rng.choice(["../" * ups_ + tail_, "/" + tail_, os.path.join(base, tail_), "..%2F" * ups_ + tail_.replace("/", "%2F"), "%2E%2E%2F" * ups_ + tail_,
                                      "x/" + "../" * (ups_ + 1) + tail_, "..\\" * ups_ + tail_, "%2F" + os.path.join(base, tail_).strip("/").replace("/", "%2F")])
                shape = "post-with-a-path-in-uid-or-slug"
                method = "POST"
                kind_ = rng.choice(["uid", "slug", "both"])
                col_, ct_ = rng.choice([("/user/calendars/cal0/", "text/calendar"), ("/user/contacts/ab0/", "text/vcard"), ("/user/calendars/calendar/", "text/calendar")])
                uid_ = hostile if kind_ in ("uid", "both") else "evil-%d" % i
                body = gen.ical(rng, uid_, "evil", rich=False) if ct_ == "text/calendar" else gen.vcard(rng, uid_, "evil", rich=False)
                hs = [("Content-Type", ct_)] + ([("Slug", hostile)] if kind_ in ("slug", "both") else [])
                target = w.url(col_)
                res.count("posts_with_a_path_in_uid_or_slug")
                res.count("posts_with_a_path_in:" + kind_)
            s, r = w.call("c13", method, target, hs, body, record=False)
            if shape == "post-with-a-path-in-uid-or-slug" and W.World.success(s.status):
                res.count("posts_with_a_path_in_uid_or_slug_accepted")
            tried += 1
            res.evaluations += 1
            reqlog.append({"method": method, "target": target[:300], "status": s.status})
            del reqlog[:-30]
            if not (s.status == 400 and b"Bad" in (r.body or b"")[:200] and args["fe"] != "wsgi" and len(r.body or b"") < 400 and r.header("Server", "").startswith("Python")) and s.status != 0:
                reached += 1
            else:
                res.count("rejected_by_http_parser")
            res.seen(args["fe"], method, shape, s.status)
            res.count("status:%s" % s.status)
            res.count("method:" + method)
            res.count("shape:" + shape)
            if CANARY.encode() in (r.body or b""):
                viol(f"{args['fe']}/canary-in-response/{method}/{shape}", f"{method} {target[:200]} -> {s.status}: response body contains the content of a file outside the root")
            if not w.fe.__class__.__name__.startswith("Wsgi") and not w.fe.alive():
                res.count("server_restarts_after_crash")
                w.fe.start()
        res.count("targets_tried", tried)
        res.count("targets_reached_handler", reached)
        phase2 = None
        if args["fe"] == "wsgi":
            # a second tenant: another application object with another root in the same process
            # (multi-tenant WSGI, or an application rebuilt with a new root); it must not touch the first root
            from vf import fe as FE
            import xandikos.web as XW
            root2 = os.path.join(base, "root2")
            ag.enabled = False
            os.makedirs(root2, exist_ok=True)
            XW.open_store_from_path.cache_clear()
            b2 = XW.XandikosBackend(root2)
            b2._mark_as_principal("/user/")
            b2.create_principal("/user/", create_defaults=True)
            app2 = XW.XandikosApp(b2, current_user_principal="/user/")
            seq0 = ag.seq
            ag.enabled = True

            def call2(method, target, headers=(), body=None):
                env = FE.wsgiref_environ(method, target, list(headers), body, script_name="")
                out = {}
                try:
                    chunks = b"".join(app2(env, lambda st, hs, ei=None: out.update(status=st)))
                except Exception:
                    return 500, b""
                return int(out.get("status", "500 x").split(" ")[0]), chunks
            for (m_, t_, h_, b_) in [("MKCALENDAR", "/user/calendars/cal0/", [X.XML_CT], X.mkcalendar()), ("PUT", "/user/calendars/cal0/a.ics", [("Content-Type", "text/calendar")], gen.ical(rng, "tenant2", "tenant2", rich=False)),
                                      ("GET", "/user/calendars/cal0/a.ics", [], None), ("PROPFIND", "/user/calendars/cal0/", [("Depth", "1"), X.XML_CT], X.propfind([X.P_ETAG])),
                                      ("PUT", "/user/contacts/ab0/c.vcf", [("Content-Type", "text/vcard")], gen.vcard(rng, "tenant2", "tenant2", rich=False)), ("DELETE", "/user/calendars/cal0/a.ics", [], None),
                                      ("MKCOL", "/top/", [], None), ("GET", "/top/", [], None)]:
                st_, body_ = call2(m_, t_, h_, b_)
                res.count("second_tenant_requests")
                if b"inside" in body_:
                    viol("wsgi/second-tenant/served-first-tenants-data", f"{m_} {t_} on an application rooted elsewhere returned the first tenant's member")
            ag.enabled = False
            phase2 = (seq0, root2)
        # ---- verdicts
        w.stop()
        if ag is not None:
            ag.enabled = False
        events = load_events(logpath, arm_seq)
        res.count("audit_events", len(events))
        if phase2 is not None:
            ev1 = [e for e in events if e[0] <= phase2[0]]
            ev2 = [e for e in events if e[0] > phase2[0]]
            judge_events(ev1, w.root, top, allow_read, allow_write, res, viol, args["fe"])
            judge_events(ev2, phase2[1], top, allow_read, allow_write, res, viol, "wsgi-second-tenant")
        else:
            judge_events(events, w.root, top, allow_read, allow_write, res, viol, args["fe"])
        after = snapshot(top, exclude=[w.root, os.path.join(base, "root2"), os.path.join(base, "tmp"), logpath, strace_log] + [os.path.join(base, f) for f in os.listdir(base) if f.endswith(".log") or f.endswith(".sock")])
        res.count("snapshot_entries", len(before))
        for p in sorted(set(before) | set(after)):
            if before.get(p) != after.get(p):
                what = "created" if p not in before else ("deleted" if p not in after else "modified")
                rel = os.path.relpath(p, base)
                cls = "git-repository" if "/.git/" in p or p.endswith("/.git/") else ("directory" if p.endswith("/") else "file")
                viol(f"{args['fe']}/snapshot/{what}-outside-root/{cls}", f"{rel} was {what} outside the data root by the request stream")
        if args.get("strace") and os.path.exists(strace_log):
            judge_strace(strace_log, w.root, top, allow_read, allow_write, res, viol, args["fe"])
        res.sample({"config": cfg, "requests": reqlog[:6]})
    except Exception:
        res.inconclusive.append("harness exception: " + traceback.format_exc()[-1500:])
    finally:
        try:
            w.stop()
        except Exception:
            pass
        try:
            os.chdir(common.HOME)
        except OSError:
            pass
        common.rmtree(top)
    return res


def judge_strace(path, root, base, allow_read, allow_write, res, viol, fe):
    import re
    root = os.path.realpath(root)
    pat = re.compile(r'^\d+\s+(\w+)\((?:AT_FDCWD, )?"((?:[^"\\]|\\.)*)"(?:, (?:AT_FDCWD, )?"((?:[^"\\]|\\.)*)")?(.*)$')
    mut_calls = {"mkdir", "mkdirat", "rename", "renameat", "renameat2", "unlink", "unlinkat", "rmdir", "link", "linkat", "symlink", "symlinkat", "chmod", "fchmodat", "truncate", "utimensat", "creat", "mknod"}
    judged_calls = mut_calls | {"open", "openat", "getdents64"}
    n = 0
    armed = False
    for ln in open(path, "r", errors="replace"):
        m = pat.match(ln)
        if not m:
            continue
        call, p1, p2, rest = m.group(1), m.group(2), m.group(3), m.group(4)
        if not armed:
            # requests start after the listening socket exists
            if ".sock" in ln and call in ("unlink", "unlinkat", "chmod", "fchmodat", "stat", "newfstatat"):
                armed = True
            continue
        if call not in judged_calls:
            continue
        if "ENOENT" in rest or "ENOTDIR" in rest or "EEXIST" in rest and call in ("open", "openat"):
            # nothing was touched
            if "ENOENT" in rest or "ENOTDIR" in rest:
                continue
        mut = call in mut_calls or (call in ("open", "openat") and any(f in rest for f in ("O_WRONLY", "O_RDWR", "O_CREAT", "O_TRUNC", "O_APPEND")))
        for p in [x for x in (p1, p2) if x]:
            try:
                p = p.encode("latin-1").decode("unicode_escape").encode("latin-1").decode("utf-8", "surrogateescape")
            except Exception:
                pass
            if not os.path.isabs(p):
                p = os.path.join(os.path.dirname(root), p)
            lex = os.path.normpath(p)
            n += 1
            if lex == root or lex.startswith(root + os.sep):
                continue
            allowed = allow_write if mut else allow_read
            if any(lex == a or lex.startswith(a.rstrip(os.sep) + os.sep) for a in allowed):
                continue
            if "O_DIRECTORY" in rest and not mut and call in ("open", "openat") and (root.startswith(lex + os.sep)):
                continue  # path-walk opens of ancestors
            kind = "mutation" if mut else "read"
            viol(f"{fe}/strace/fs-access-outside-root/{kind}/{call}", f"strace: {call}({p!r}) outside the data root {root}: {ln.strip()[:200]}")
    res.count("strace_calls_judged", n)


def check(tier, seed, t0):
    th = tier == "thorough"
    shards = []
    combos = [("aio", "/"), ("wsgi", "/"), ("aio", "/dav/"), ("wsgi", "/dav/")]
    for i in range(12 if not th else 16):
        fe, pre = combos[i % 4]
        shards.append({"fe": fe, "prefix": pre, "seed": seed * 100 + i, "requests": 800 if not th else 2500, "outer_repo": (i // 4) % 3 == 1, "root_repo": (i // 4) % 3 == 2})
    if th:
        for i, pre in enumerate(("/", "/dav/")):
            shards.append({"fe": "aio", "prefix": pre, "seed": seed * 100 + 50 + i, "requests": 1500, "strace": True})
    results, failures = common.run_shards("vf.props.c13", shards, timeout_s=300 if not th else 2400)
    merged = common.merge(results)
    c = merged["counters"]
    tried = max(1, c.get("targets_tried", 0))
    guards = [("adversarial requests", c.get("targets_tried", 0), 9000 if not th else 40000), ("share of targets that reached a handler (percent)", 100 * c.get("targets_reached_handler", 0) // tried, 85),
              ("audit events judged", c.get("fs_events_judged", 0), 100000 if not th else 500000), ("events inside the root (workload really touched the store)", c.get("fs_events_inside_root", 0), 20000)]
    for m in ("GET", "PUT", "DELETE", "MKCOL", "MKCALENDAR", "PROPFIND", "PROPPATCH", "REPORT", "POST"):
        guards.append(("method " + m, c.get("method:" + m, 0), 50))
    guards.append(("shards whose data directory lies inside another git work tree", c.get("shards_with_outer_repository", 0), 4))
    guards.append(("shards whose data directory is itself a git repository", c.get("shards_whose_data_directory_is_a_repository", 0), 4))
    for sh in ("dots-after-a-segment-with-url-syntax", "ordinary-below-plain-directory", "up-from-root", "up-from-collection", "up-from-member", "encoded-slash", "absolute-form", "double-slash", "double-encoded-last-segment", "leading-slashes", "compat-chars-last-segment", "backslash", "nul", "dot-segments-only"):
        guards.append(("targets of shape " + sh, c.get("shape:" + sh, 0), 200))
    guards.append(("accepted POSTs whose UID or Slug header spells a path", c.get("posts_with_a_path_in_uid_or_slug_accepted", 0), 300))
    if th:
        guards.append(("strace calls judged", c.get("strace_calls_judged", 0), 10000))
    return common.finish(PROP, tier, seed, "exploration", merged, failures, RULE, t0, guards=guards,
                         assumptions=["stat-only probes are not judged (the statement is about creating, modifying, deleting, listing and reading)",
                                      "static allow-list: interpreter prefixes, /usr, /etc, /proc, /dev, /repo, /verif, HOME and TMPDIR of the server process"])


def replay(path):
    rp = json.load(open(path))
    cfg = rp["witness"]["config"]
    res = run_shard(dict(cfg))
    for v in res.violations:
        print("VIOLATION property=%s replay=%s" % (PROP, path))
        print("  sig=%s :: %s" % (v["sig"], v["msg"][:300]))
    return 1 if res.violations else 0


# (what later rounds of seeded changes added to the workload; part of the evidence's description of the check)
RULE += "; " + 'deployments whose data directory is itself a git repository, targets made of dot segments only, POST add-member with a path in UID / Slug'
