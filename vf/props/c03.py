"""C03  Conditional requests are honoured and have no effect when they fail."""
import itertools
import os
import random
import traceback

from vf import common, gen, icl, world as W, davxml as X

PROP = "C03"
RULE = ("enumerated cross product: resource state {absent, v1, v3 after two rewrites, deleted-and-recreated} x header value class {none, current, stale, other "
        "resource's, *, [stale,current], [stale,other], never-issued quoted tag, weak W/current (If-Match only), empty, unquoted (outcome free, effect checked)} x header "
        "{If-Match, If-None-Match, both} x method {PUT valid, PUT invalid body, DELETE, GET, HEAD} x front end {wsgi callable, real CLI} x backend {tree-git, bare-git}; "
        "oracle = RFC 7232 matching implemented in the harness over the ETags it observed; every case is followed by a GET audit of the target (and of a bystander); "
        "Store-API histories check replace_etag/etag arguments; thorough adds header-name case and list-spacing variants and the wsgiref host; "
        "distinct = distinct (fe, backend, state, header, value class, method, outcome) tuples")

STATES = ["absent", "v1", "v3", "recreated"]
VALUE_CLASSES = ["none", "current", "stale", "other", "star", "list-stale-current", "list-stale-other", "never-issued", "weak-current", "empty", "unquoted-current"]
HEADERS = ["If-Match", "If-None-Match", "both"]
METHODS = ["PUT", "PUT-invalid", "DELETE", "GET", "HEAD"]


def oracle_match(value_class, exists):
    """Does the header value 'match' the current representation (RFC 7232)?
    -> True / False / None (outcome not determined by the statement)"""
    if value_class == "star":
        return exists
    if value_class in ("current", "list-stale-current"):
        return exists
    if value_class in ("stale", "other", "list-stale-other", "never-issued", "empty"):
        return False
    if value_class == "weak-current":
        return False  # If-Match uses the strong comparison function
    if value_class == "unquoted-current":
        return None
    raise ValueError(value_class)


def cases():
    out = []
    for st, hdr, method in itertools.product(STATES, HEADERS, METHODS):
        if hdr == "both":
            vcs = [("current", "other"), ("current", "current"), ("stale", "other"), ("star", "star"), ("current", "star"), ("star", "never-issued")]
        else:
            vcs = [(v,) for v in VALUE_CLASSES if v != "none"]
        for vc in vcs:
            if hdr == "If-None-Match" and vc[0] == "weak-current":
                continue  # weak comparison may legitimately match: latitude
            if hdr == "both" and method in ("GET", "HEAD"):
                continue
            if method in ("GET", "HEAD") and hdr == "If-Match":
                continue  # not part of the statement
            if method == "DELETE" and hdr in ("If-None-Match", "both"):
                continue  # not part of the statement
            if st == "absent" and vc[0] in ("current", "list-stale-current", "weak-current", "unquoted-current", "stale") and True:
                # no current/stale tag exists for an absent resource; use other/never instead
                continue
            out.append((st, hdr, vc, method))
    for st, method in itertools.product(STATES, METHODS):
        out.append((st, "none", ("none",), method))
    return out


def spell(rng, name, variant):
    if not variant:
        return name
    return rng.choice([name.lower(), name.upper(), name.title(), name])


def join_list(rng, items, variant):
    if not variant:
        return ", ".join(items)
    return rng.choice([", ", ",", " , ", ",  "]).join(items)


class Runner:
    def __init__(self, w, res, rng, variant):
        self.w = w
        self.res = res
        self.rng = rng
        self.variant = variant
        self.k = 0
        self.log = []

    def viol(self, sig, msg, case):
        self.res.violation(sig, msg, {"config": self.cfg, "case": case, "requests": self.log[-12:]})

    def req(self, method, target, headers=(), body=None):
        s, r = self.w.call("c03", method, target, list(headers), body)
        self.log.append(s.brief())
        return s, r

    def run_case(self, colpath, col_kind, backend, case):
        st, hdr, vcs, method = case
        w, rng, res = self.w, self.rng, self.res
        self.k += 1
        ext = ".ics" if col_kind == "calendar" else ".vcf"
        name = "t%d%s" % (self.k, ext)
        other = "o%d%s" % (self.k, ext)
        ctype = W.ctype_for(name)
        where = f"{w.fe_kind if w.fe_kind != 'wsgihost' else 'wsgi'}/{backend}"

        def mk(uid, tag):
            if ext == ".ics":
                return gen.ical(rng, uid, tag, rich=False)
            return gen.vcard(rng, uid, tag, rich=False)

        target = w.url(colpath, name)
        otarget = w.url(colpath, other)
        uid = "c3-%d" % self.k
        etags = []
        # bystander
        ob = mk(uid + "-o", "other")
        s, r = self.req("PUT", otarget, [("Content-Type", ctype)], ob)
        if not W.World.success(s.eff):
            res.inconclusive.append(f"setup PUT of bystander refused ({s.eff})")
            return
        s, r = self.req("GET", otarget)
        other_etag, other_body = r.header("ETag"), r.body
        cur_body = None
        nver = {"absent": 0, "v1": 1, "v3": 3, "recreated": 2}[st]
        for i in range(nver):
            b = mk(uid, "v%d" % (i + 1))
            s, r = self.req("PUT", target, [("Content-Type", ctype)], b)
            if not W.World.success(s.eff):
                res.inconclusive.append(f"setup PUT refused ({s.eff})")
                return
            s, r = self.req("GET", target)
            etags.append(r.header("ETag"))
            cur_body = r.body
            if st == "recreated" and i == 0:
                s, r = self.req("DELETE", target)
                if not W.World.success(s.eff):
                    res.inconclusive.append(f"setup DELETE refused ({s.eff})")
                    return
        exists = nver > 0
        current = etags[-1] if etags else None
        stale = [e for e in etags[:-1] if e != current]
        if exists and not stale and any(v in ("stale", "list-stale-current", "list-stale-other") for v in vcs):
            stale = ['"%040x"' % rng.getrandbits(160)] if st == "v1" else stale
            if st == "v1":
                # v1 has no earlier version: a stale tag is one that belonged to a deleted sibling version
                pass

        def value(vc):
            if vc == "current":
                return current
            if vc == "stale":
                return rng.choice(stale) if stale else '"%040x"' % rng.getrandbits(160)
            if vc == "other":
                return other_etag
            if vc == "star":
                return "*"
            if vc == "list-stale-current":
                return join_list(rng, [rng.choice(stale) if stale else '"%040x"' % 1, current], self.variant)
            if vc == "list-stale-other":
                return join_list(rng, [rng.choice(stale) if stale else '"%040x"' % 1, other_etag], self.variant)
            if vc == "never-issued":
                return '"%040x"' % rng.getrandbits(160)
            if vc == "weak-current":
                return "W/" + current
            if vc == "empty":
                return ""
            if vc == "unquoted-current":
                return current.strip('"')
            raise ValueError(vc)

        hs = []
        m_if_match = m_if_none = "absent-header"
        if hdr == "If-Match":
            hs.append((spell(rng, "If-Match", self.variant), value(vcs[0])))
            m_if_match = oracle_match(vcs[0], exists)
        elif hdr == "If-None-Match":
            hs.append((spell(rng, "If-None-Match", self.variant), value(vcs[0])))
            m_if_none = oracle_match(vcs[0], exists)
        elif hdr == "both":
            hs.append((spell(rng, "If-Match", self.variant), value(vcs[0])))
            hs.append((spell(rng, "If-None-Match", self.variant), value(vcs[1])))
            m_if_match = oracle_match(vcs[0], exists)
            m_if_none = oracle_match(vcs[1], exists)
        # expected: precondition passes?
        if m_if_match is None or m_if_none is None:
            passes = None
        else:
            ok1 = True if m_if_match == "absent-header" else bool(m_if_match)
            ok2 = True if m_if_none == "absent-header" else (not m_if_none)
            passes = ok1 and ok2
        newb = mk(uid, "new")
        if method == "PUT" and exists and cur_body and self.k % 2 == 0:
            # the client sends again exactly what the server holds (a retry after a lost response): the precondition decides all the same
            newb = cur_body
            res.count("conditional_puts_of_the_stored_bytes")
        if method == "PUT":
            s, r = self.req("PUT", target, [("Content-Type", ctype)] + hs, newb)
        elif method == "PUT-invalid":
            bad = b"this is not a calendar or card"
            s, r = self.req("PUT", target, [("Content-Type", ctype)] + hs, bad)
        elif method == "DELETE":
            s, r = self.req("DELETE", target, hs)
        else:
            s, r = self.req(method, target, hs)
        eff = s.eff
        res.evaluations += 1
        case_d = {"state": st, "header": hdr, "values": list(vcs), "method": method, "sent": hs, "current": current, "stale": stale, "other": other_etag,
                  "oracle_passes": passes, "answer": eff}
        vkey = "+".join(vcs)
        sigbase = f"{where}/{method}/{hdr}/{vkey}/{'exists' if exists else 'absent'}"
        # ---- judge the answer
        executed = None
        if method in ("GET", "HEAD"):
            if not exists:
                if eff != 404:
                    self.viol(f"{sigbase}/absent-not-404", f"{method} of absent resource answered {eff}", case_d)
            elif hdr == "If-None-Match" and m_if_none is True:
                res.count("expected_304")
                if eff != 304:
                    self.viol(f"{sigbase}/matching-if-none-match-not-304", f"{method} with matching If-None-Match {hs!r} answered {eff}, expected 304", case_d)
                elif r.body:
                    self.viol(f"{sigbase}/304-with-body", f"304 carried {len(r.body)} body bytes", case_d)
            elif m_if_none is False or hdr == "none":
                res.count("expected_200")
                if eff != 200:
                    self.viol(f"{sigbase}/non-matching-if-none-match-not-200", f"{method} with non-matching {hs!r} answered {eff}, expected 200", case_d)
        else:
            success = W.World.success(eff)
            if method == "PUT-invalid":
                if success:
                    self.viol(f"{sigbase}/invalid-body-accepted", f"PUT of an invalid body answered {eff}", case_d)
            elif method == "DELETE" and not exists:
                if success:
                    self.viol(f"{sigbase}/delete-of-absent-succeeds", f"DELETE of absent resource answered {eff}", case_d)
            elif passes is True:
                res.count("expected_executed")
                if not success:
                    self.viol(f"{sigbase}/refused-although-precondition-holds", f"{method} with {hs!r} answered {eff} although the precondition holds (current {current}, exists={exists})", case_d)
            elif passes is False:
                res.count("expected_refused")
                if success:
                    self.viol(f"{sigbase}/executed-although-precondition-fails", f"{method} with {hs!r} answered {eff} although the precondition fails (current {current}, exists={exists})", case_d)
                elif eff != 412:
                    self.viol(f"{sigbase}/refusal-not-412", f"{method} with failing precondition {hs!r} answered {eff}, expected 412", case_d)
            executed = success
        # ---- audit the state
        s2, r2 = self.req("GET", target)
        if method in ("GET", "HEAD") or not executed:
            # nothing may have changed
            if exists:
                if s2.eff != 200 or r2.body != cur_body or r2.header("ETag") != current:
                    self.viol(f"{sigbase}/state-changed-by-non-executed-request", f"after {method} answered {eff}: GET gives {s2.eff}, body changed={r2.body != cur_body}, etag {r2.header('ETag')} (was {current})", case_d)
            elif s2.eff != 404:
                self.viol(f"{sigbase}/absent-resource-appeared", f"after {method} answered {eff} the absent resource answers GET {s2.eff}", case_d)
        else:
            if method == "PUT":
                ok = s2.eff == 200
                if ok:
                    if ext == ".ics":
                        try:
                            ok = icl.canon_bytes(r2.body) == icl.canon_bytes(newb)
                        except icl.ICLError:
                            ok = False
                    else:
                        ok = r2.body == newb
                if not ok:
                    self.viol(f"{sigbase}/executed-put-not-visible", f"PUT answered {eff} but GET gives {s2.eff} / other content", case_d)
            elif method == "DELETE":
                if s2.eff != 404:
                    self.viol(f"{sigbase}/executed-delete-not-visible", f"DELETE answered {eff} but GET gives {s2.eff}", case_d)
        s3, r3 = self.req("GET", otarget)
        if s3.eff != 200 or r3.body != other_body or r3.header("ETag") != other_etag:
            self.viol(f"{sigbase}/bystander-changed", f"bystander {other!r} changed after {method} on {name!r}", case_d)
        res.count("cases")
        res.count("cases:" + method)
        res.count("answer:%s" % eff)
        res.seen(where, st, hdr, vcs, method, eff)
        # clean up to keep the collection small
        self.req("DELETE", target)
        self.req("DELETE", otarget)


def run_slow_uploads(args, res):
    """a conditional PUT whose body arrives slowly (real CLI server) while another PUT of the same name completes:
    the condition holds when the request starts and no longer when the body is complete.  Whatever order the
    server gives the two requests, the answers and the final content must be those of one of the two orders -
    in both of them the resource ends with the other request's content."""
    from vf import fe as FE
    rng = random.Random(args["seed"])
    base = common.mkscratch("c03s")
    w = W.World(base, fe_kind="aio", prefix=args.get("prefix", "/"), seed=args["seed"])
    w.res = res
    try:
        w.start()
        w.stop()
        w.provision_bare("/user/calendars/barecal/", "calendar", meta="gitconfig")
        w.start()
        w.mkcol("/user/calendars/cal0/", "calendar")
        for rnd in range(args["rounds"]):
            for colpath, backend in (("/user/calendars/cal0/", "tree"), ("/user/calendars/barecal/", "bare")):
                for cond in ("if-none-match-star-on-absent", "if-match-current-on-present"):
                    name = "slow-%d-%s.ics" % (rnd, cond[:8])
                    uid = "slow-%d-%s-%s" % (rnd, cond[:8], backend)
                    target = w.url(colpath, name)
                    big = rng.random() < 0.5
                    ta, tb = w.new_token(), w.new_token()
                    body_a = gen.ical(rng, uid, ta, rich=False, big=70000 if big else 0)
                    body_b = gen.ical(rng, uid, tb, rich=False)
                    hs = [("Content-Type", "text/calendar")]
                    if cond == "if-none-match-star-on-absent":
                        hs.append(("If-None-Match", "*"))
                    else:
                        r0 = FE.raw_http(w.fe.addr, "PUT", target, [("Content-Type", "text/calendar")], gen.ical(rng, uid, w.new_token(), rich=False))
                        et = r0.header("ETag")
                        if r0.status not in (201, 204) or not et:
                            continue
                        hs.append(("If-Match", et))

                    def other():
                        return FE.raw_http(w.fe.addr, "PUT", target, [("Content-Type", "text/calendar")], body_b)
                    ra, rb = FE.raw_http_slow(w.fe.addr, "PUT", target, hs, body_a, other)
                    sa = X.effective_status("PUT", ra)[0]
                    sb = X.effective_status("PUT", rb)[0] if rb is not None else 0
                    rg = FE.raw_http(w.fe.addr, "GET", target, [], None)
                    final = "A" if ta.encode() in rg.body else ("B" if tb.encode() in rg.body else "other")
                    res.evaluations += 1
                    res.count("slow_upload_cases")
                    res.count("slow_upload_outcome:%s/%s/%s" % (sa, sb, final))
                    res.seen("slow-upload", backend, cond, sa, sb, final, big)
                    okA, okB = sa in (200, 201, 204), sb in (200, 201, 204)
                    # sequential orders: A then B -> A ok, B ok, final B;  B then A -> B ok, A refused (412), final B
                    legal = okB and final == "B" and (okA or sa == 412)
                    if not okB and sb not in (0,):
                        # B itself refused (e.g. locked): then A alone decides; final A iff A ok
                        legal = (okA and final == "A") or (not okA and final != "A")
                    if not legal:
                        res.violation(f"aio/{backend}/slow-conditional-upload/{cond}/answers-{sa}+{sb}-final-{final}",
                                      f"PUT {target} ({cond}) whose body arrived while another PUT of the same name completed: the conditional PUT answered {sa}, the other {sb}, "
                                      f"and the resource finally holds the content of {final}: no order of the two requests gives that", {"config": dict(args)})
    except Exception:
        res.inconclusive.append("harness exception: " + traceback.format_exc()[-1500:])
    finally:
        w.stop()
        common.rmtree(base)
    return res


def run_scheduled(args, res):
    """a conditional PUT (If-Match: current etag) pre-empted at each of its file-system steps in turn, while an
    unconditional PUT of the same resource runs to completion (WSGI application, two threads, deterministic scheduler of
    vf/sched.py; asyncio.to_thread of the web layer runs inline so that the store code stays on the scheduled thread).
    Whatever the point: if both are answered 2xx the resource must end with the unconditional PUT's content - the
    condition was no longer true when the conditional one wrote."""
    from vf import sched
    import xandikos.web as XW

    async def inline(func, *a, **k):
        return func(*a, **k)
    XW.to_thread = inline
    rng = random.Random(args["seed"])
    base = common.mkscratch("c03p")
    w = W.World(base, fe_kind="wsgi", prefix=args.get("prefix", "/"), seed=args["seed"])
    w.res = res
    try:
        w.start()
        colpath = "/user/calendars/cal0/"
        w.mkcol(colpath, "calendar")
        fsp = w.fs_path(colpath)
        for rnd in range(args["rounds"]):
            name = "s%d.ics" % rnd
            uid = "c03-sched-%d" % rnd
            target = w.url(colpath, name)

            def put(tok, hdrs=()):
                return w.fe.request("PUT", target, [("Content-Type", "text/calendar")] + list(hdrs), gen.ical(rng, uid, tok, rich=False))
            # recording pass: how many yield points does the conditional PUT have?
            r0 = put(w.new_token())
            et = r0.header("ETag")
            sc = sched.Scheduler(fsp, preempt={}, first=0)
            rr = sc.run([lambda: put(w.new_token(), [("If-Match", et)])])
            n_yields = len(sc.trace)
            if rr[0][0] != "value" or rr[0][1].status not in (200, 201, 204) or n_yields == 0:
                res.inconclusive.append("recording pass of the conditional PUT failed: %r, %d yields" % (rr[0], n_yields))
                continue
            res.count("scheduled_conditional_put_yield_points", n_yields)
            for k in range(n_yields):
                r0 = put(w.new_token())
                et = r0.header("ETag")
                ta, tb = w.new_token(), w.new_token()
                sc = sched.Scheduler(fsp, preempt={k: 1}, first=0)
                rr = sc.run([lambda: put(ta, [("If-Match", et)]), lambda: put(tb)])
                if sc.stuck or any(x is None or x[0] != "value" for x in rr):
                    res.count("scheduled_runs_without_two_answers")
                    continue
                label = sc.trace[k][1] if k < len(sc.trace) and sc.trace[k][0] == 0 else "?"
                sa, sb = X.effective_status("PUT", rr[0][1])[0], X.effective_status("PUT", rr[1][1])[0]
                rg = w.fe.request("GET", target, [], None)
                final = "A" if ta.encode() in (rg.body or b"") else ("B" if tb.encode() in (rg.body or b"") else "other")
                res.evaluations += 1
                res.count("scheduled_interleavings")
                res.seen("scheduled", label, sa, sb, final)
                okA, okB = sa in (200, 201, 204), sb in (200, 201, 204)
                if okA and okB and final != "B":
                    where = "lock-acquisition" if label.endswith(".git/index.lock") else label
                    res.violation(f"scheduled/tree/conditional-put-overwrote-an-acknowledged-put/preempted-at-{where}",
                                  f"PUT {target} If-Match {et} pre-empted at its step {k} ({label}) while an unconditional PUT of the same resource ran: both answered {sa}/{sb} and the "
                                  f"resource holds the content of {final}: the condition was evaluated before the other write and not again", {"config": dict(args), "step": k, "label": label})
                elif okA and okB:
                    res.count("scheduled_both_ok_final_B")
                elif okB and not okA:
                    res.count("scheduled_conditional_refused:%s" % sa)
                elif okA and not okB:
                    res.count("scheduled_other_refused:%s" % sb)
                    if final != "A":
                        res.violation("scheduled/tree/acknowledged-conditional-put-not-stored", f"conditional PUT answered {sa}, the other {sb} (refused), yet the resource holds {final}", {"config": dict(args), "step": k, "label": label})
    except Exception:
        res.inconclusive.append("harness exception: " + traceback.format_exc()[-1500:])
    finally:
        w.stop()
        common.rmtree(base)
    return res


def run_shard(args):
    res = common.Result()
    if args.get("mode") == "scheduled":
        return run_scheduled(args, res)
    if args.get("mode") == "store":
        from vf import storedrv
        return storedrv.run(args, res, PROP)
    if args.get("mode") == "slow":
        return run_slow_uploads(args, res)
    rng = random.Random(args["seed"])
    base = common.mkscratch("c03")
    w = W.World(base, fe_kind=args["fe"], prefix=args.get("prefix", "/"), seed=args["seed"])
    w.res = res
    try:
        w.start()
        w.stop()
        w.provision_bare("/user/calendars/barecal/", "calendar", meta="gitconfig")
        w.provision_bare("/user/contacts/bareab/", "addressbook", meta="file")
        w.start()
        w.mkcol("/user/calendars/cal0/", "calendar")
        w.mkcol("/user/contacts/ab0/", "addressbook")
        run = Runner(w, res, rng, args.get("variant", False))
        run.cfg = {k: args[k] for k in ("fe", "prefix", "seed", "variant", "slice") if k in args}
        allc = cases()
        lo, hi, step = args["slice"]
        mine = allc[lo:hi:step]
        targets = {"tree": [("/user/calendars/cal0/", "calendar"), ("/user/contacts/ab0/", "addressbook")],
                   "bare": [("/user/calendars/barecal/", "calendar"), ("/user/contacts/bareab/", "addressbook")]}[args["backend"]]
        for i, c in enumerate(mine):
            colpath, kind = targets[i % 2] if args.get("both_kinds", True) else targets[0]
            run.run_case(colpath, kind, args["backend"], c)
            if i == 0:
                res.sample({"config": run.cfg, "case": c, "requests": run.log[-10:]})
        res.count("restarts", w.restarts)
    except Exception:
        res.inconclusive.append("harness exception: " + traceback.format_exc()[-1500:])
    finally:
        w.stop()
        common.rmtree(base)
    return res


def check(tier, seed, t0):
    n = len(cases())
    shards = []
    fes = ["wsgi", "aio"]
    for fe in fes:
        for backend in ("tree", "bare"):
            parts = 3 if fe == "aio" else 2
            step = 1
            if tier == "quick" and backend == "bare":
                step = 2
            for k in range(parts):
                lo = k * n // parts
                hi = (k + 1) * n // parts
                shards.append({"fe": fe, "backend": backend, "prefix": "/" if k % 2 == 0 else "/dav/", "seed": seed * 100 + len(shards), "slice": [lo, hi, step], "variant": (k % 2 == 1)})
    if tier == "thorough":
        for fe in ("wsgi", "aio", "wsgihost"):
            for backend in ("tree", "bare"):
                for k in range(2):
                    lo, hi = k * n // 2, (k + 1) * n // 2
                    shards.append({"fe": fe, "backend": backend, "prefix": "/dav/" if k else "/", "seed": seed * 100 + len(shards), "slice": [lo, hi, 1], "variant": True})
    for i, b in enumerate(["vdir", "bare-mem", "bare-disk", "tree"]):
        shards.append({"mode": "store", "backend": b, "seed": seed * 100 + 70 + i, "steps": 200 if tier == "quick" else 1500, "histories": 2 if tier == "quick" else 6})
    for i in range(2 if tier == "quick" else 6):
        shards.append({"mode": "slow", "prefix": ["/", "/dav/"][i % 2], "seed": seed * 100 + 90 + i, "rounds": 6 if tier == "quick" else 25})
    for i in range(2 if tier == "quick" else 6):
        shards.append({"mode": "scheduled", "prefix": ["/", "/dav/"][i % 2], "seed": seed * 100 + 95 + i, "rounds": 2 if tier == "quick" else 6})
    results, failures = common.run_shards("vf.props.c03", shards, timeout_s=300 if tier == "quick" else 2400)
    merged = common.merge(results)
    c = merged["counters"]
    guards = [("cases", c.get("cases", 0), int(n * 2.5)), ("cases expected executed", c.get("expected_executed", 0), 100), ("cases expected refused", c.get("expected_refused", 0), 100),
              ("cases expected 304", c.get("expected_304", 0), 20), ("cases expected 200", c.get("expected_200", 0), 20), ("store-API steps", c.get("store_steps", 0), 1000),
              ("conditional PUTs whose body arrived while another PUT completed", c.get("slow_upload_cases", 0), 40),
              ("conditional PUTs pre-empted at one of their steps while another PUT of the resource ran", c.get("scheduled_interleavings", 0), 60),
              ("conditional PUTs carrying exactly the stored bytes", c.get("conditional_puts_of_the_stored_bytes", 0), 40)]
    return common.finish(PROP, tier, seed, "exploration", merged, failures, RULE + f"; the cross product has {n} cases per (front end, backend)", t0, guards=guards,
                         assumptions=["RFC 7232: If-Match strong comparison, '*' = exists; unquoted values are not entity-tags (outcome not judged, effect judged)",
                                      "weak tags in If-None-Match and repeated header lines are outside the statement and not generated"],
                         exhaustive=False)


def replay(path):
    import json
    rp = json.load(open(path))
    wit = rp["witness"]
    cfg = wit["config"]
    res = common.Result()
    rng = random.Random(cfg["seed"])
    base = common.mkscratch("c03r")
    w = W.World(base, fe_kind=cfg["fe"], prefix=cfg.get("prefix", "/"), seed=cfg["seed"])
    try:
        w.start(); w.stop()
        w.provision_bare("/user/calendars/barecal/", "calendar", meta="gitconfig")
        w.start()
        w.mkcol("/user/calendars/cal0/", "calendar")
        run = Runner(w, res, rng, cfg.get("variant", False))
        run.cfg = cfg
        c = wit["case"]
        case = (c["state"], c["header"], tuple(c["values"]), c["method"])
        for colpath, backend in (("/user/calendars/cal0/", "tree"), ("/user/calendars/barecal/", "bare")):
            run.run_case(colpath, "calendar", backend, case)
    finally:
        w.stop()
        common.rmtree(base)
    for v in res.violations:
        print("VIOLATION property=%s replay=%s" % (PROP, path))
        print("  sig=%s :: %s" % (v["sig"], v["msg"][:300]))
    return 1 if res.violations else 0


# (what later rounds of seeded changes added to the workload; part of the evidence's description of the check)
RULE += "; " + "a conditional PUT pre-empted at each of its file-system steps in turn while an unconditional PUT of the same resource runs to completion (WSGI application in two threads under the deterministic scheduler): both answered 2xx => the resource ends with the unconditional one's content"
