"""C14  Only well-formed data is stored, and stored data is a fixed point of upload."""
import os
import random
import subprocess
import traceback
import urllib.parse

from vf import common, gen, icl, world as W, davxml as X

PROP = "C14"
RULE = ("generated bodies PUT into calendars / address books (tree-git via MKCALENDAR/MKCOL, pre-provisioned bare-git; wsgi callable and real CLI): valid iCalendar/vCard "
        "(CRLF/LF, random folding, escapes, quoted parameters, non-ASCII, VTIMEZONE/VALARM, RRULE) must be accepted, served property-for-property equal (own parser) and the "
        "served bytes re-uploaded must leave ETag, sync-token and commit count unchanged; members of the invalid classes (arbitrary text, empty, truncated at every line boundary "
        "and at random byte offsets, each C0 control character / DEL in a TEXT value, card without BEGIN / END, wrong root component, broken nesting) must be refused with no "
        "member created and no tag change; an accepted invalid body is additionally read back through GET, multiget and query to see whether it is parseable / keeps the XML "
        "well-formed; Store-API variant for vdir; distinct = distinct (kind, backend, class, outcome) + distinct valid bodies by canonical form")

# the invalid classes named by the property statement; the others (wrong root
# component, broken nesting) are judged by their consequences only
STATEMENT_CLASSES = {"arbitrary", "empty", "truncated-line", "truncated-byte", "control-char", "no-begin", "no-end", "no-begin-no-end"}

CTRL = ["\x00", "\x01", "\x02", "\x03", "\x04", "\x05", "\x06", "\x07", "\x08", "\x0b", "\x0c", "\x0e", "\x0f", "\x10", "\x11", "\x12", "\x13", "\x14", "\x15", "\x16", "\x17",
        "\x18", "\x19", "\x1a", "\x1b", "\x1c", "\x1d", "\x1e", "\x1f", "\x7f"]


def invalid_cases(rng, kind, thorough):
    """yield (class, detail, body)"""
    if kind == "calendar":
        good = gen.ical_lines(rng, "c14inv", "tok", rich=False)
        for b in [b"hello world", b"<html><body>x</body></html>", b"\x00\x01\x02\x03", b"BEGIN", b"{\"json\": 1}", "ünïcödé tëxt".encode(), b"BEGIN:VCALENDAR", b"\r\n\r\n", b"END:VCALENDAR\r\n"]:
            yield ("arbitrary", "", b)
        yield ("empty", "", b"")
        for k in range(1, len(good)):
            yield ("truncated-line", "after %d of %d lines" % (k, len(good)), ("\r\n".join(good[:k]) + "\r\n").encode())
        full = ("\r\n".join(good) + "\r\n").encode()
        for _ in range(12 if thorough else 5):
            k = rng.randint(1, len(full) - 16)
            yield ("truncated-byte", "", full[:k])
        chars = CTRL if thorough else (["\x00", "\x01", "\x0c", "\x7f"] + rng.sample(CTRL, 4))
        for c in chars:
            for prop in (["SUMMARY", "DESCRIPTION", "LOCATION"] if thorough else ["SUMMARY", rng.choice(["DESCRIPTION", "LOCATION"])]):
                lines = [l for l in good if not l.startswith(prop + ":")]
                lines.insert(5, prop + ":bad" + c + "char")
                yield ("control-char", "%s U+%04X" % (prop, ord(c)), ("\r\n".join(lines) + "\r\n").encode("utf-8"))
        # the same forbidden characters below the first level of nesting
        for c in (CTRL if thorough else (["\x01", "\x7f"] + rng.sample(CTRL, 2))):
            kindline = [l for l in good if l.startswith("BEGIN:") and l != "BEGIN:VCALENDAR"][0][6:]
            if kindline in ("VEVENT", "VTODO"):
                i = good.index("END:" + kindline)
                lines = good[:i] + ["BEGIN:VALARM", "ACTION:DISPLAY", "DESCRIPTION:bad" + c + "char", "TRIGGER:-PT15M", "END:VALARM"] + good[i:]
                yield ("control-char", "VALARM/DESCRIPTION U+%04X" % ord(c), ("\r\n".join(lines) + "\r\n").encode("utf-8"))
            tz = [("TZNAME:bad" + c + "char") if l.startswith("TZNAME:") and n == [k for k, x in enumerate(gen.VTIMEZONE_AMS) if x.startswith("TZNAME:")][0] else l
                  for n, l in enumerate(gen.VTIMEZONE_AMS)]
            lines = good[:3] + tz + good[3:]
            yield ("control-char", "VTIMEZONE/sub-component/TZNAME U+%04X" % ord(c), ("\r\n".join(lines) + "\r\n").encode("utf-8"))
        yield ("wrong-root", "VCARD as text/calendar", ("\r\n".join(gen.vcard_lines(rng, "c14inv", "tok", rich=False)) + "\r\n").encode())
        lines = list(good)
        i = lines.index("END:VCALENDAR")
        j = [k for k, l in enumerate(lines) if l.startswith("END:V") and l != "END:VCALENDAR"][0]
        lines[i], lines[j] = lines[j], lines[i]
        yield ("broken-nesting", "END lines swapped", ("\r\n".join(lines) + "\r\n").encode())
    else:
        good = gen.vcard_lines(rng, "c14inv", "tok", rich=False)
        for b in [b"hello world", b"<html></html>", b"\x00\x01", b"BEGIN:VCARD", b"FN:x", "ünï".encode()]:
            yield ("arbitrary", "", b)
        yield ("empty", "", b"")
        yield ("no-begin", "", ("\r\n".join(good[1:]) + "\r\n").encode())
        yield ("no-end", "", ("\r\n".join(good[:-1]) + "\r\n").encode())
        yield ("no-begin-no-end", "", ("\r\n".join(good[1:-1]) + "\r\n").encode())
        for k in range(1, len(good)):
            yield ("truncated-line", "after %d of %d lines" % (k, len(good)), ("\r\n".join(good[:k]) + "\r\n").encode())
        full = ("\r\n".join(good) + "\r\n").encode()
        for _ in range(8 if thorough else 4):
            yield ("truncated-byte", "", full[:rng.randint(1, len(full) - 6)])
        for c in (CTRL if thorough else ["\x00", "\x01", "\x1b", "\x7f", "\x08", "\x1f"]):
            lines = [("NOTE:bad" + c + "char") if l.startswith("NOTE:") else l for l in good]
            yield ("control-char", "NOTE U+%04X" % ord(c), ("\r\n".join(lines) + "\r\n").encode("utf-8"))
        # ... and where a parser that looks at decoded text values only does not see them: structured and
        # list-valued properties, parameter values, a second card in the same body
        for c in (CTRL if thorough else (["\x01", "\x1b"] + rng.sample(CTRL, 1))):
            body_lines = [l for l in good if l != "END:VCARD"]
            spots = [("N", "N:Do" + c + "e;John;;;"), ("ORG", "ORG:Acme" + c + ";Unit"), ("CATEGORIES", "CATEGORIES:a,b" + c + "c"), ("ADR", "ADR;TYPE=HOME:;;1 Main" + c + " St;Town;;12345;NL"),
                     ("parameter", "TEL;TYPE=\"wo" + c + "rk\":+1 555 0100")]
            for (where_, line) in (spots if thorough else rng.sample(spots, 3)):
                lines = [l for l in body_lines if not l.startswith(where_ + ":") and not (where_ == "N" and l.startswith("N:"))] + [line, "END:VCARD"]
                yield ("control-char", "%s U+%04X" % (where_, ord(c)), ("\r\n".join(lines) + "\r\n").encode("utf-8"))
            second = ["BEGIN:VCARD", "VERSION:3.0", "FN:Second" + c + "Card", "N:Card;Second;;;", "UID:c14inv-second", "END:VCARD"]
            yield ("control-char", "second-card U+%04X" % ord(c), ("\r\n".join(good + second) + "\r\n").encode("utf-8"))
        # a body of two cards cut inside the second one, and a complete card followed by something else
        second = ["BEGIN:VCARD", "VERSION:3.0", "FN:Second Card", "N:Card;Second;;;", "UID:c14inv-second2", "NOTE:the second card", "END:VCARD"]
        two = ("\r\n".join(good + second) + "\r\n").encode()
        first_len = len(("\r\n".join(good) + "\r\n").encode())
        for _ in range(6 if thorough else 3):
            yield ("truncated-byte", "inside the second card of the body", two[:rng.randint(first_len + 12, len(two) - 11)])
        yield ("truncated-line", "second card without END", ("\r\n".join(good + second[:-1]) + "\r\n").encode())
        yield ("arbitrary", "a complete card followed by other text", ("\r\n".join(good) + "\r\nand then something else\r\n").encode())
        yield ("wrong-root", "VCALENDAR as text/vcard", ("\r\n".join(gen.ical_lines(rng, "c14inv", "tok", rich=False)) + "\r\n").encode())


class Runner:
    def __init__(self, w, res, rng, cfg):
        self.w, self.res, self.rng, self.cfg = w, res, rng, cfg
        self.k = 0
        self.log = []

    def viol(self, sig, msg, extra=None):
        self.res.violation(sig, msg, {"config": self.cfg, "detail": extra, "requests": self.log[-8:]})

    def req(self, method, target, headers=(), body=None):
        s, r = self.w.call("c14", method, target, list(headers), body)
        b = s.brief()
        self.log.append(b)
        return s, r

    def ctype_variant(self, kind):
        """the media type as clients really send it: bare, or with parameters"""
        base = W.CT[kind]
        v = self.rng.choice(["", "", "; charset=utf-8", ";charset=UTF-8", "; charset=\"utf-8\"", "; component=VEVENT" if kind == "calendar" else "; version=3.0"])
        if v:
            self.res.count("content_type_with_parameter")
        return base + v

    def tags(self, colpath):
        s, r = self.w.propfind(self.w.url(colpath), [X.P_SYNCTOKEN, X.P_CTAG_CS], "0", record=False)
        try:
            rs, _ = X.parse_multistatus(r.body)
            return rs[0].prop_text(X.P_SYNCTOKEN)
        except Exception:
            return None

    def commits(self, colpath):
        out = subprocess.run(["git", "-C", self.w.fs_path(colpath), "rev-list", "--count", "HEAD"], capture_output=True, text=True, env=self.w._git_env(), timeout=30)
        return out.stdout.strip()

    def valid_case(self, colpath, kind, backend):
        w, rng, res = self.w, self.rng, self.res
        self.k += 1
        ext = ".ics" if kind == "calendar" else ".vcf"
        name = "v%d%s" % (self.k, ext)
        ctype = self.ctype_variant(kind)
        uid = "c14-%d-%d" % (self.cfg["seed"] % 1000, self.k)
        body = gen.ical(rng, uid, "tok%d" % self.k) if kind == "calendar" else gen.vcard(rng, uid, "tok%d" % self.k)
        where = f"{w.fe_kind}/{backend}/{kind}"
        target = w.url(colpath, name)
        s, r = self.req("PUT", target, [("Content-Type", ctype)], body)
        res.evaluations += 1
        res.count("valid_generated")
        if not W.World.success(s.eff):
            res.count("valid_refused")
            res.count("valid_refused:%s" % s.eff)
            if s.eff >= 500:
                self.viol(f"{where}/valid-body-5xx", f"PUT of a valid generated body answered {s.eff}", {"body": body.decode("utf-8", "replace")})
            else:
                res.notes.append("valid body refused %s: %r" % (s.eff, body[:300]))
            return
        res.count("valid_accepted")
        et1 = r.header("ETag")
        s, r = self.req("GET", target)
        if s.eff != 200:
            self.viol(f"{where}/accepted-body-not-served", f"GET after successful PUT answers {s.eff}")
            return
        served = r.body
        et_get = r.header("ETag")
        if kind == "calendar":
            try:
                cs = icl.canon_bytes(served)
            except icl.ICLError as e:
                self.viol(f"{where}/served-unparseable", f"served calendar object does not parse: {e}", {"served": served.decode("utf-8", "replace")[:1500]})
                return
            cu = icl.canon_bytes(body)
            if cs != cu:
                self.viol(f"{where}/served-differs-property-for-property", "served object is not property-for-property the uploaded one",
                          {"uploaded": body.decode("utf-8", "replace")[:1500], "served": served.decode("utf-8", "replace")[:1500]})
            res.seen("valid", cu)
        else:
            try:
                icl.parse_vcard(served)
            except icl.ICLError as e:
                self.viol(f"{where}/served-unparseable", f"served vCard does not parse: {e}")
            if served != body:
                self.viol(f"{where}/vcard-bytes-differ", "served vCard is not byte-identical to the upload")
            res.seen("valid", body)
        if kind == "calendar" and b"RRULE" in served and (self.k // 2) % 2 == 0:
            # what a client does between reading an event and saving it again: a report that asks for expanded
            # recurrences.  A read: the stored form still is what GET served.
            exp = '<C:calendar-data><C:expand start="20190101T000000Z" end="20270101T000000Z"/></C:calendar-data>'
            self.w.report(colpath, X.multiget_raw(kind, [target], exp) if hasattr(X, "multiget_raw") else
                          (f'<?xml version="1.0" encoding="utf-8"?><C:calendar-multiget {X.NS}><D:prop><D:getetag/>{exp}</D:prop><D:href>{X.xesc(target)}</D:href></C:calendar-multiget>').encode(), record=False)
            res.count("expand_reports_before_reupload")
        # fixed point
        tag1 = self.tags(colpath)
        n1 = self.commits(colpath)
        s, r = self.req("PUT", target, [("Content-Type", ctype)], served)
        if not W.World.success(s.eff):
            self.viol(f"{where}/reupload-of-served-refused", f"re-upload of the served bytes answered {s.eff}")
            return
        et2 = r.header("ETag")
        s, r = self.req("GET", target)
        tag2 = self.tags(colpath)
        n2 = self.commits(colpath)
        res.count("fixed_point_checks")
        if r.body != served:
            self.viol(f"{where}/fixed-point/bytes-changed", "re-uploading the served bytes changed the served bytes", {"before": served.decode("utf-8", "replace")[:1200], "after": r.body.decode("utf-8", "replace")[:1200]})
        if et2 != et_get or r.header("ETag") != et_get:
            self.viol(f"{where}/fixed-point/etag-changed", f"re-upload of served bytes: ETag {et_get} -> PUT says {et2}, GET says {r.header('ETag')}")
        if tag1 != tag2:
            self.viol(f"{where}/fixed-point/collection-tag-changed", f"re-upload of served bytes moved the sync-token {tag1} -> {tag2}")
        if n1 != n2:
            self.viol(f"{where}/fixed-point/new-commit", f"re-upload of served bytes added a commit ({n1} -> {n2})")
        if self.k % 6 == 0:
            self.req("DELETE", target)

    def invalid_post(self, colpath, kind, backend, cls, detail, body):
        """the same invalid bodies through POST add-member (RFC 5995): the server chooses the name"""
        w, res = self.w, self.res
        where = f"{w.fe_kind}/{backend}/{kind}"
        ctype = self.ctype_variant(kind)
        tag1 = self.tags(colpath)
        s, r = self.req("POST", w.url(colpath), [("Content-Type", ctype)], body)
        res.evaluations += 1
        res.count("invalid_posted")
        res.count("invalid_post:" + cls)
        sigd = cls if cls != "control-char" else "control-char/" + detail.split(" ")[0]
        tag2 = self.tags(colpath)
        if not W.World.success(s.eff):
            res.count("invalid_post_refused")
            res.seen(kind, backend, cls, "post", "refused")
            if tag1 != tag2:
                self.viol(f"{where}/refused-invalid-post-moved-tag/{cls}", f"POST of invalid body ({cls} {detail}) answered {s.eff} but the sync-token moved")
            return
        res.seen(kind, backend, cls, "post", "accepted")
        loc = r.header("Location")
        consequences = []
        target = None
        if loc:
            target = urllib.parse.urljoin(w.url(colpath), loc)
            if "://" in target:
                sp = urllib.parse.urlsplit(target)
                target = sp.path
            s2, r2 = self.req("GET", target)
            try:
                if kind == "calendar":
                    icl.parse_calendar(r2.body)
                else:
                    icl.parse_vcard(r2.body)
            except icl.ICLError as e:
                consequences.append("stored member does not parse: %s" % e)
        q = X.calendar_query(X.CAL_MATCH_ALL) if kind == "calendar" else X.addressbook_query(X.CARD_MATCH_ALL)
        s4, r4 = self.w.report(colpath, q, record=False)
        if s4.eff >= 500:
            consequences.append("query answers %s" % s4.eff)
        else:
            try:
                X.parse_multistatus(r4.body)
            except X.MalformedXML as e:
                consequences.append("query with data is ill-formed XML: %s" % e)
        if cls in STATEMENT_CLASSES or consequences:
            self.viol(f"{where}/invalid-body-accepted-by-post/{sigd}", f"POST (add-member) of invalid body ({cls}; {detail}) answered {s.eff}; consequences: {consequences or 'none observed'}",
                      {"body": repr(body[:400]), "location": loc})
        if target:
            self.req("DELETE", target)

    def invalid_case(self, colpath, kind, backend, cls, detail, body, existing=False, primed=None):
        w, rng, res = self.w, self.rng, self.res
        self.k += 1
        ext = ".ics" if kind == "calendar" else ".vcf"
        if existing and rng.random() < 0.35:
            # member names as some clients write them: the extension in capitals or mixed case
            ext = rng.choice([ext.upper(), ext.capitalize(), "." + ext[1:].capitalize()])
            res.count("invalid_over_existing_member_with_upper_case_extension")
        name = "i%d%s" % (self.k, ext)
        ctype = self.ctype_variant(kind)
        where = f"{w.fe_kind}/{backend}/{kind}"
        target = w.url(colpath, name)
        old = None
        if existing:
            old = gen.ical(rng, "c14e-%d" % self.k, "old", rich=False) if kind == "calendar" else gen.vcard(rng, "c14e-%d" % self.k, "old", rich=False)
            s, r = self.req("PUT", target, [("Content-Type", ctype)], old)
            s, r = self.req("GET", target)
            old = r.body
        prime_target = None
        if primed:
            # the same bytes are already known to the collection under a name / media
            # type that is not validated: validity is a property of the request, not
            # of whether the bytes were seen before
            pext, ptype = {"plain": (".txt", "text/plain"), "other": ((".vcf", "text/vcard") if kind == "calendar" else (".ics", "text/calendar"))}[primed]
            prime_target = w.url(colpath, "p%d%s" % (self.k, pext))
            sp, rp = self.req("PUT", prime_target, [("Content-Type", ptype)], body)
            res.count("primed_" + primed + ("_stored" if W.World.success(sp.eff) else "_refused"))
            detail = (detail + " " if detail else "") + "[same bytes stored before as %s]" % ptype
        tag1 = self.tags(colpath)
        s, r = self.req("PUT", target, [("Content-Type", ctype)], body)
        res.evaluations += 1
        res.count("invalid_generated")
        res.count("invalid:" + cls)
        outcome = "accepted" if W.World.success(s.eff) else ("refused-5xx" if s.eff >= 500 or s.eff == 0 else "refused")
        res.count("invalid_" + outcome)
        res.seen(kind, backend, cls, detail if cls == "control-char" else "", outcome, existing, primed)
        s2, r2 = self.req("GET", target)
        tag2 = self.tags(colpath)
        if prime_target:
            self.req("DELETE", prime_target)
        sigd = cls if cls != "control-char" else "control-char/" + detail.split(" ")[0]
        if primed:
            sigd += "/bytes-known-as-" + primed
        if outcome != "accepted":
            if existing:
                if s2.eff != 200 or r2.body != old:
                    self.viol(f"{where}/refused-invalid-body-changed-member/{cls}", f"PUT of invalid body ({cls} {detail}) answered {s.eff} but the existing member changed")
            elif s2.eff != 404:
                self.viol(f"{where}/refused-invalid-body-created-member/{cls}", f"PUT of invalid body ({cls} {detail}) answered {s.eff} but GET now answers {s2.eff}")
            if tag1 != tag2:
                self.viol(f"{where}/refused-invalid-body-moved-tag/{cls}", f"PUT of invalid body ({cls} {detail}) answered {s.eff} but the sync-token moved")
            return
        # accepted: is what is stored well-formed?
        consequences = []
        try:
            if kind == "calendar":
                icl.parse_calendar(r2.body)
            else:
                icl.parse_vcard(r2.body)
        except icl.ICLError as e:
            consequences.append("stored member does not parse: %s" % e)
        q = X.multiget(kind, [target], data=True)
        s3, r3 = self.w.report(colpath, q, record=False)
        try:
            X.parse_multistatus(r3.body)
        except X.MalformedXML as e:
            consequences.append("multiget with data is ill-formed XML: %s" % e)
        q = X.calendar_query(X.CAL_MATCH_ALL) if kind == "calendar" else X.addressbook_query(X.CARD_MATCH_ALL)
        s4, r4 = self.w.report(colpath, q, record=False)
        if s4.eff >= 500:
            consequences.append("query answers %s" % s4.eff)
        else:
            try:
                X.parse_multistatus(r4.body)
            except X.MalformedXML as e:
                consequences.append("query with data is ill-formed XML: %s" % e)
        if cls in STATEMENT_CLASSES or consequences:
            self.viol(f"{where}/invalid-body-accepted/{sigd}", f"PUT of invalid body ({cls}; {detail}) answered {s.eff}; consequences: {consequences or 'none observed'}",
                      {"body": repr(body[:400]), "stored": repr(r2.body[:400])})
        else:
            # not one of the statement's invalid classes, and what was stored is
            # well-formed (the lenient parser repaired it): observation only
            res.count("lenient_accept_without_consequence:" + cls)
        self.req("DELETE", target)


def run_shard(args):
    res = common.Result()
    rng = random.Random(args["seed"])
    base = common.mkscratch("c14")
    # the file-creation mask of the server's account: 022 (the usual default), or a stricter / laxer one
    um = [None, "027", None, "077", "002", None][args["seed"] % 6]
    w = W.World(base, fe_kind=args["fe"], prefix=args.get("prefix", "/"), seed=args["seed"], server_env={"VF_UMASK": um} if um else None)
    w.res = res
    res.count("shards_with_umask:" + (um or "default"))
    try:
        w.start()
        w.stop()
        w.provision_bare("/user/calendars/barecal/", "calendar", meta="gitconfig")
        w.provision_bare("/user/contacts/bareab/", "addressbook", meta="file")
        w.start()
        # in every other shard the collections are plain ones that were typed afterwards (PROPPATCH resourcetype)
        later = args["seed"] % 2 == 1
        w.mkcol("/user/calendars/cal0/", "calendar", how="mkcol-then-proppatch" if later else "auto")
        w.mkcol("/user/contacts/ab0/", "addressbook", how="mkcol-then-proppatch" if later else "auto")
        res.count("shards_with_collections_typed_after_creation", 1 if later else 0)
        cfg = {k: args[k] for k in ("fe", "prefix", "seed", "nvalid", "thorough")}
        run = Runner(w, res, rng, cfg)
        targets = [("/user/calendars/cal0/", "calendar", "tree"), ("/user/contacts/ab0/", "addressbook", "tree"),
                   ("/user/calendars/barecal/", "calendar", "bare"), ("/user/contacts/bareab/", "addressbook", "bare")]
        for i in range(args["nvalid"]):
            cp, kind, be = targets[i % 4]
            run.valid_case(cp, kind, be)
            if i == 0:
                res.sample({"config": cfg, "valid_case_requests": run.log[-6:]})
        for ti, (cp, kind, be) in enumerate(targets):
            if args.get("invalid_targets") is not None and ti not in args["invalid_targets"]:
                continue
            for (cls, detail, body) in invalid_cases(rng, kind, args["thorough"]):
                run.invalid_case(cp, kind, be, cls, detail, body, existing=(rng.random() < 0.3))
                if rng.random() < 0.3:
                    run.invalid_post(cp, kind, be, cls, detail, body)
                if cls == "wrong-root" or rng.random() < 0.2:
                    run.invalid_case(cp, kind, be, cls, detail, body, existing=(rng.random() < 0.3), primed="other" if cls == "wrong-root" and rng.random() < 0.7 else "plain")
        res.sample({"invalid_case_requests": run.log[-4:]})
    except Exception:
        res.inconclusive.append("harness exception: " + traceback.format_exc()[-1500:])
    finally:
        w.stop()
        common.rmtree(base)
    return res


def check(tier, seed, t0):
    th = tier == "thorough"
    shards = []
    for i in range(12 if not th else 16):
        fe = ["wsgi", "aio"][i % 2]
        shards.append({"fe": fe, "prefix": "/" if (i // 2) % 2 == 0 else "/dav/", "seed": seed * 100 + i, "nvalid": 60 if not th else 700, "thorough": th,
                       "invalid_targets": [i % 4, (i + 1) % 4] if not th else None})
    results, failures = common.run_shards("vf.props.c14", shards, timeout_s=300 if not th else 2400)
    merged = common.merge(results)
    c = merged["counters"]
    gen_n = max(1, c.get("valid_generated", 0))
    guards = [("valid bodies generated", c.get("valid_generated", 0), 600 if not th else 8000),
              ("re-uploads of recurring events after a report with expanded recurrences", c.get("expand_reports_before_reupload", 0), 5 if not th else 50),
              ("shards under a file-creation mask other than 022", sum(v for k_, v in c.items() if k_.startswith("shards_with_umask:") and not k_.endswith("default")), 4),
              ("shards whose collections were typed after creation", c.get("shards_with_collections_typed_after_creation", 0), 3),
              ("invalid bodies PUT over an existing member whose extension is in capitals / mixed case", c.get("invalid_over_existing_member_with_upper_case_extension", 0), 40),
              ("invalid bodies sent by POST add-member", c.get("invalid_posted", 0), 100), ("of which refused", c.get("invalid_post_refused", 0), 80),
              ("invalid bodies whose bytes were stored before under an unvalidated type", c.get("primed_plain_stored", 0) + c.get("primed_other_stored", 0), 60),
              ("share of valid bodies accepted (percent)", 100 * c.get("valid_accepted", 0) // gen_n, 90),
              ("fixed-point checks", c.get("fixed_point_checks", 0), 500 if not th else 7000),
              ("invalid bodies generated", c.get("invalid_generated", 0), 500 if not th else 3000),
              ("invalid bodies refused", c.get("invalid_refused", 0) + c.get("invalid_refused-5xx", 0), 300),
              ("uploads whose Content-Type carries a parameter", c.get("content_type_with_parameter", 0), 200)]
    for cls in ("arbitrary", "empty", "truncated-line", "truncated-byte", "control-char", "no-begin", "no-end", "wrong-root", "broken-nesting"):
        guards.append(("invalid class " + cls, c.get("invalid:" + cls, 0), 4))
    return common.finish(PROP, tier, seed, "exploration", merged, failures, RULE, t0, guards=guards,
                         assumptions=["well-formedness is judged by the harness's own RFC 5545/6350 content-line parser (vf/icl.py)", "generated valid bodies use canonical value spellings (e.g. no P1W durations), so re-serialisation is the only legitimate difference"])


def replay(path):
    import json
    rp = json.load(open(path))
    cfg = rp["witness"]["config"]
    res = run_shard({"fe": cfg["fe"], "prefix": cfg["prefix"], "seed": cfg["seed"], "nvalid": cfg["nvalid"], "thorough": cfg["thorough"]})
    for v in res.violations:
        print("VIOLATION property=%s replay=%s" % (PROP, path))
        print("  sig=%s :: %s" % (v["sig"], v["msg"][:300]))
    return 1 if res.violations else 0


# (what later rounds of seeded changes added to the workload; part of the evidence's description of the check)
RULE += "; " + 'invalid bodies PUT over members whose extension is written in capitals / mixed case'
