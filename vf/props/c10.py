"""C10  Query results do not depend on the query history (index transparency)."""
import os
import random
import subprocess
import traceback
import xml.etree.ElementTree as ET
from datetime import timedelta, timezone
from zoneinfo import ZoneInfo

from vf import common, gen, icl, world as W, davxml as X, caloracle as O
from vf.props import c11

PROP = "C10"
RULE = ("sequences of calendar-queries and writes against one calendar: 3-6 filters (section 9.9 time-ranges, presence / is-not-defined / text-match / param filters, nested "
        "VALARM) are each repeated up to 12 times and interleaved so that the automatic index is created, reset and extended, with PUT / DELETE of members in between; index "
        "thresholds {0, 1, 5 (default), 50}; contents include objects with TZID / DATE / floating values, several components of one type (RECURRENCE-ID overrides), objects "
        "lacking the tested property and unparseable files committed with git; after every query the result set is compared with the *naive* evaluation of the same filter by "
        "a fresh store object on the same repository state (implementation against itself, no RFC oracle); a recording wrapper counts how often the index path really answered; "
        "thorough adds --paranoid servers whose own double-check assertion is a second monitor; distinct = distinct (filter shape, repetition number, index-path?, threshold)")


def extra_objects(rng):
    """objects that stress the index: overrides, missing properties"""
    out = []
    L = ["BEGIN:VCALENDAR", "VERSION:2.0", "PRODID:-//vf//c10//EN"]
    L += ["BEGIN:VEVENT", "UID:c10-rec", "DTSTAMP:20240101T000000Z", "DTSTART:20240515T120000Z", "DURATION:PT1H", "RRULE:FREQ=DAILY;COUNT=3", "SUMMARY:master", "END:VEVENT"]
    L += ["BEGIN:VEVENT", "UID:c10-rec", "DTSTAMP:20240101T000000Z", "RECURRENCE-ID:20240516T120000Z", "DTSTART:20240520T090000Z", "DURATION:PT2H", "SUMMARY:moved override", "LOCATION:Room 2", "END:VEVENT"]
    L += ["END:VCALENDAR"]
    out.append(("x-rec.ics", "VEVENT/override", ("\r\n".join(L) + "\r\n").encode()))
    # (the other way round: the overridden instance first, the master - the only one with a DESCRIPTION - last)
    L = ["BEGIN:VCALENDAR", "VERSION:2.0", "PRODID:-//vf//c10//EN"]
    L += ["BEGIN:VEVENT", "UID:c10-rec2", "DTSTAMP:20240101T000000Z", "RECURRENCE-ID:20240517T120000Z", "DTSTART:20240521T090000Z", "DURATION:PT2H", "SUMMARY:early override", "END:VEVENT"]
    L += ["BEGIN:VEVENT", "UID:c10-rec2", "DTSTAMP:20240101T000000Z", "DTSTART:20240515T120000Z", "DURATION:PT1H", "RRULE:FREQ=DAILY;COUNT=4", "SUMMARY:late master", "DESCRIPTION:only here", "END:VEVENT"]
    L += ["END:VCALENDAR"]
    out.append(("x-rec2.ics", "VEVENT/override-first", ("\r\n".join(L) + "\r\n").encode()))
    L = ["BEGIN:VCALENDAR", "VERSION:2.0", "PRODID:-//vf//c10//EN", "BEGIN:VTODO", "UID:c10-bare", "DTSTAMP:20240101T000000Z", "END:VTODO", "END:VCALENDAR"]
    out.append(("x-bare.ics", "VTODO/no-props", ("\r\n".join(L) + "\r\n").encode()))
    L = ["BEGIN:VCALENDAR", "VERSION:2.0", "PRODID:-//vf//c10//EN", "BEGIN:VEVENT", "UID:c10-two", "DTSTAMP:20240101T000000Z", "DTSTART:20240515T120000Z", "SUMMARY:first", "CATEGORIES:work,home",
         "END:VEVENT", "BEGIN:VTODO", "UID:c10-two", "DTSTAMP:20240101T000000Z", "DUE:20240515T140000Z", "SUMMARY:second", "END:VTODO", "END:VCALENDAR"]
    out.append(("x-two.ics", "VEVENT+VTODO", ("\r\n".join(L) + "\r\n").encode()))
    return out


def filter_pool(rng, n, objs_tr):
    """-> list of (filter, tzid, shape)"""
    pool = []
    H = timedelta(hours=1)
    T0 = c11.T0
    for _ in range(n):
        k = rng.random()
        if k < 0.5:
            ctype = rng.choice(["VEVENT", "VEVENT", "VTODO", "VJOURNAL", "VFREEBUSY"])
            pts = [T0 - H, T0, T0 + H, T0 + 2 * H, T0 + 3 * H, T0 - timedelta(hours=12), T0 + timedelta(hours=12), T0 + timedelta(days=1)]
            s = rng.choice(pts) + timedelta(seconds=rng.choice([-1, 0, 1]))
            e = s + rng.choice([timedelta(seconds=1), H, 2 * H, timedelta(days=1), timedelta(days=7)])
            tzid = rng.choice([None, None, "Europe/Amsterdam", "Pacific/Auckland"])
            flt = {"type": "comp", "name": "VCALENDAR", "children": [{"type": "comp", "name": ctype, "time_range": (s, e)}]}
            pool.append((flt, tzid, "time-range/" + ctype + ("/tz" if tzid else "")))
        else:
            flt, feats = c11.gen_filter(rng)
            pool.append((flt, None, "filter/" + "+".join(sorted(set(f.split("/")[0] for f in feats)))))
    # one positive condition that only the second VEVENT of an object with an overridden instance satisfies
    for pf in ({"type": "prop", "name": "LOCATION"}, {"type": "prop", "name": "SUMMARY", "text_match": {"text": "moved override", "collation": None, "negate": False}},
               {"type": "prop", "name": "LOCATION", "text_match": {"text": "Room 2", "collation": None, "negate": False}}, {"type": "prop", "name": "DESCRIPTION"},
               {"type": "prop", "name": "SUMMARY", "text_match": {"text": "late master", "collation": None, "negate": False}}):
        if rng.random() < 0.6:
            pool.append(({"type": "comp", "name": "VCALENDAR", "children": [{"type": "comp", "name": "VEVENT", "children": [pf]}]}, None, "filter/one-positive-condition-met-by-a-later-component"))
    # a negated text-match on a property that some of the objects do not have
    for comp, pname, text in (("VEVENT", "LOCATION", "Room 1"), ("VEVENT", "DESCRIPTION", "nothing"), ("VTODO", "STATUS", "COMPLETED"), ("VEVENT", "X-CUSTOM", "alpha")):
        if rng.random() < 0.6:
            pf = {"type": "prop", "name": pname, "text_match": {"text": text, "collation": None, "negate": True}}
            pool.append(({"type": "comp", "name": "VCALENDAR", "children": [{"type": "comp", "name": comp, "children": [pf]}]}, None, "filter/negated-text-match-on-a-property-some-objects-lack"))
    # filters that extend another pool filter: same first key group, further keys (a second
    # prop-filter or a time-range in the same component)
    import copy
    for (flt, tzid, shape) in list(pool):
        try:
            inner = flt["children"][0]
        except (KeyError, IndexError):
            continue
        if inner.get("type") != "comp" or inner.get("is_not_defined") or not inner.get("children") or inner["name"] not in ("VEVENT", "VTODO", "VJOURNAL"):
            continue
        if rng.random() < 0.6:
            ext = copy.deepcopy(flt)
            e_in = ext["children"][0]
            if rng.random() < 0.5 and e_in.get("time_range") is None:
                e_in["time_range"] = (T0 - 12 * H, T0 + 36 * H)
                pool.append((ext, tzid, shape + "+added-time-range"))
            else:
                e_in["children"].append({"type": "prop", "name": rng.choice(["DTSTART", "UID", "DTSTAMP", "SUMMARY"])})
                pool.append((ext, tzid, shape + "+added-prop-exists"))
    return pool


def mechanism(name, body, shape, filter_xml):
    """closed vocabulary of known index/naive divergence mechanisms"""
    if "top-level-not-vcalendar" in shape:
        return "top-level-comp-filter-not-vcalendar"
    timey = "time-range" in shape or "time-range" in filter_xml
    multi = max(body.count(b"BEGIN:" + c) for c in (b"VEVENT", b"VTODO", b"VJOURNAL")) > 1 or (body.count(b"BEGIN:VEVENT") + body.count(b"BEGIN:VTODO") + body.count(b"BEGIN:VJOURNAL")) > 1
    if multi:
        if filter_xml.count("<C:prop-filter") == 1 and filter_xml.count("<C:comp-filter") == 2 and not any(t in filter_xml for t in ("time-range", "is-not-defined", "negate-condition", "param-filter")):
            # one positive condition: flattening the values of all components cannot change the answer
            return "several-components-in-one-object/one-positive-condition"
        return "several-components-in-one-object/values-flattened"
    if timey and b";TZID=" in body:
        return "tzid-value-indexed-without-timezone"
    return "unclassified/" + shape


def cause_of(w, r):
    """(ExceptionType@function, traceback tail) of a 500, from the WSGI error
    body or from the server log of the CLI process"""
    import re
    text = (r.body or b"").decode("utf-8", "replace")
    if "Traceback" not in text and hasattr(w.fe, "log"):
        text = w.fe.log(8000)
        i = text.rfind("Traceback")
        text = text[i:] if i >= 0 else text
    frames = re.findall(r'File "[^"]*/xandikos/[^"]*", line \d+, in (\w+)', text)
    exc = re.findall(r"^(\w+(?:Error|Exception))\b", text, re.M)
    return "%s@%s" % (exc[-1] if exc else "unknown", frames[-1] if frames else "unknown"), text


class Recorder:
    """recording wrapper around Store._iter_with_filter_indexes / _naive (harness process only)"""

    def __init__(self):
        self.index_calls = 0
        self.naive_calls = 0
        self.resets = 0
        self.installed = False

    def install(self):
        if self.installed:
            return
        import xandikos.store as S
        import xandikos.store.index as I
        rec = self
        oi, on, orst = S.Store._iter_with_filter_indexes, S.Store._iter_with_filter_naive, I.MemoryIndex.reset

        def wi(self_, flt, keys):
            if not getattr(self_, "_vf_reference", False):
                rec.index_calls += 1
            return oi(self_, flt, keys)

        def wn(self_, flt):
            if not getattr(self_, "_vf_reference", False):
                rec.naive_calls += 1
            return on(self_, flt)

        def wr(self_, keys):
            rec.resets += 1
            return orst(self_, keys)
        S.Store._iter_with_filter_indexes = wi
        S.Store._iter_with_filter_naive = wn
        I.MemoryIndex.reset = wr
        self.installed = True


REC = Recorder()


def reference(fs_path, filter_xml, tzid):
    """naive evaluation by a fresh store object on the same directory"""
    from xandikos.store.git import GitStore
    from xandikos.icalendar import ICalendarFile, CalendarFilter
    from xandikos.vcard import VCardFile
    from xandikos import caldav
    st = GitStore.open_from_path(fs_path)
    st._vf_reference = True
    st.load_extra_file_handler(ICalendarFile)
    st.load_extra_file_handler(VCardFile)
    el = ET.fromstring(f'<C:filter {X.NS}>{filter_xml}</C:filter>')
    tz = ZoneInfo(tzid) if tzid else timezone.utc
    flt = caldav.parse_filter(el, CalendarFilter(tz))
    return {name for (name, f, etag) in st._iter_with_filter_naive(flt)}


def run_concurrent(args):
    """two clients repeat two different filters at the same time against the real CLI server (no writes): every answer
    must be the naive answer for its own filter, whatever the other request did to the index in the meantime"""
    import threading
    import time
    from vf import fe as FE
    res = common.Result()
    rng = random.Random(args["seed"])
    base = common.mkscratch("c10c")
    if args.get("fe", "aio") == "aio":
        w = W.World(base, fe_kind="aio", prefix="/", seed=args["seed"], extra_args=["--index-threshold", str(args.get("threshold", 1))])
    else:
        # the WSGI application inside a container that runs several requests at once in one process (threads)
        w = W.World(base, fe_kind="wsgihost", prefix="/", seed=args["seed"], server_env={"VF_THREADS": "1"})
    w.res = res
    try:
        w.start()
        colpath = "/user/calendars/qc/"
        w.mkcol(colpath, "calendar")
        fsp = w.fs_path(colpath)
        for name, label, body in c11.gen_objects(rng, 40, plain=True):
            w.call("put", "PUT", w.url(colpath, name), [("Content-Type", "text/calendar")], body, record=False)
        pool = [f for f in filter_pool(rng, 60, None) if "VFREEBUSY" not in f[2] and "/tz" not in f[2] and "param-" not in f[2] and "top-level" not in f[2] and "time-range" not in f[2]]
        # filters with answers that differ from each other and are not empty
        fams = []
        for flt, tzid, shape in pool:
            fx = O.render(flt)
            try:
                ref = reference(fsp, fx, tzid)
            except Exception:
                continue
            if ref and all(ref != f[3] and shape != f[2] for f in fams):
                fams.append((fx, tzid, shape, ref))
            if len(fams) >= 4:
                break
        if len(fams) < 2:
            res.inconclusive.append("could not find two filters with distinct non-empty answers")
            return res
        stop = threading.Event()
        bad = []
        counts = {"q": 0}

        def client(i):
            r = random.Random(args["seed"] + i)
            while not stop.is_set():
                fx, tzid, shape, ref = fams[(i + (0 if r.random() < 0.8 else 1)) % len(fams)]
                resp = FE.raw_http(w.fe.addr, "REPORT", w.url(colpath), [("Depth", "1"), X.XML_CT], X.calendar_query(fx, data=False, extra=c11.tz_xml(tzid)), timeout=30,
                                   half_close=(args.get("fe", "aio") != "aio"))
                if resp.status != 207:
                    bad.append((shape, "status %s" % resp.status, None))
                    continue
                try:
                    rs, _ = X.parse_multistatus(resp.body)
                except X.MalformedXML:
                    bad.append((shape, "ill-formed", None))
                    continue
                got = {w.rel_name(x.href or "", colpath) for x in rs} - {None, ""}
                counts["q"] += 1
                if got != ref:
                    bad.append((shape, "differs", sorted(got ^ ref)[:5]))
        ts = [threading.Thread(target=client, args=(i,)) for i in range(3)]
        for t in ts:
            t.start()
        common.run_for(args["seconds"], lambda: counts["q"] >= 20 * args["seconds"])
        stop.set()
        for t in ts:
            t.join()
        res.evaluations += counts["q"]
        res.count("concurrent_queries_compared", counts["q"])
        res.seen("concurrent", len(fams), counts["q"] // 100)
        for shape, what, names in bad[:20]:
            res.violation(f"index-path/concurrent-queries/{what.split(' ')[0]}", f"filter [{shape}] repeated while other clients repeated other filters: answer {what} {names or ''} (the same filter alone gives the naive answer)", {"config": dict(args)})
    except Exception:
        res.inconclusive.append("harness exception: " + traceback.format_exc()[-1500:])
    finally:
        w.stop()
        common.rmtree(base)
    return res


def run_shard(args):
    if args.get("mode") == "concurrent":
        return run_concurrent(args)
    res = common.Result()
    rng = random.Random(args["seed"])
    base = common.mkscratch("c10")
    thr = args["threshold"]
    extra = ["--index-threshold", str(thr)] if thr is not None else []
    if args.get("paranoid"):
        extra.append("--paranoid")
    w = W.World(base, fe_kind=args["fe"], prefix="/", seed=args["seed"], extra_args=extra)
    w.res = res
    cfg = dict(args)

    def viol(sig, msg, extra_=None):
        res.violation(sig, msg, {"config": cfg, "detail": extra_})
    try:
        w.start()
        if args["fe"] == "wsgi":
            REC.install()
            w.fe.app.backend.index_threshold = thr
            w.fe.app.backend.paranoid = bool(args.get("paranoid"))
        for seq in range(args["sequences"]):
            colpath = "/user/calendars/q%d/" % seq
            w.mkcol(colpath, "calendar")
            fsp = w.fs_path(colpath)
            rows = c11.row_objects()
            plain = bool(args.get("paranoid"))
            if plain:
                # --paranoid servers turn every index/naive disagreement into an AssertionError; keep the
                # *known* disagreement mechanisms (TZID values, FREEBUSY periods, several components, param
                # keys, odd top-level filters) out of these shards so that any assertion is news
                rows = [r for r in rows if not r[0].endswith("/tzid") and not r[0].startswith("VFREEBUSY")]
            allrows = list(rows)
            rng.shuffle(rows)
            objs = [("o%d.ics" % i, label, c11.build_object(label, ct, lines, vtz, i + 1000 * seq)) for i, (label, ct, lines, vtz) in enumerate(rows[:18])]
            objs += [(n, l, b) for (n, l, b) in c11.gen_objects(rng, 10, plain=plain)]
            if not plain:
                objs += extra_objects(rng)
            live = {}
            for name, label, body in objs:
                s, r = w.call("put", "PUT", w.url(colpath, name), [("Content-Type", "text/calendar")], body, record=False)
                if W.World.success(s.eff):
                    live[name] = body
            if args.get("unparseable"):
                # an unparseable file committed into the repository behind the server's back
                w.stop()
                with open(os.path.join(fsp, "broken.ics"), "wb") as f:
                    f.write(b"BEGIN:VCALENDAR\r\nthis is not a calendar\r\n")
                subprocess.run(["git", "-C", fsp, "add", "broken.ics"], capture_output=True, env=w._git_env())
                subprocess.run(["git", "-C", fsp, "commit", "-q", "-m", "broken"], capture_output=True, env=w._git_env())
                w.start()
                if args["fe"] == "wsgi":
                    w.fe.app.backend.index_threshold = thr
                    w.fe.app.backend.paranoid = bool(args.get("paranoid"))
            pool = filter_pool(rng, rng.randint(3, 6), None)
            if plain:
                pool = [f for f in filter_pool(rng, 40, None) if "VFREEBUSY" not in f[2] and "/tz" not in f[2] and "param-" not in f[2] and "top-level" not in f[2]][:rng.randint(3, 6)]
            reps = {}
            nq = 0
            while nq < args["queries"]:
                # a burst of one filter, or a write
                if rng.random() < 0.15 and live:
                    name = rng.choice(sorted(live))
                    if rng.random() < 0.35:
                        s, r = w.call("delete", "DELETE", w.url(colpath, name), [], None, record=False)
                        if W.World.success(s.eff):
                            body_was = live.pop(name)
                            res.count("writes_between_queries")
                            if rng.random() < 0.5:
                                # ... and the very same bytes come back under the same name (same blob id, same etag)
                                s, r = w.call("put", "PUT", w.url(colpath, name), [("Content-Type", "text/calendar")], body_was, record=False)
                                if W.World.success(s.eff):
                                    live[name] = body_was
                                    res.count("writes_between_queries")
                                    res.count("deleted_members_put_back_identically")
                    else:
                        # overwrite a member with the properties of a *different* table row (same
                        # name and UID): every value an index may have cached for it changes
                        rowobjs = [(i, o) for i, o in enumerate(objs) if o[0].startswith("o")]
                        i, src = rng.choice(rowobjs)
                        label, ct, lines, vtz = rng.choice(allrows)
                        if rng.random() < 0.25:
                            body = src[2]     # restore / no-op
                        else:
                            body = c11.build_object(label, ct, lines, vtz, i + 1000 * seq)
                        s, r = w.call("put", "PUT", w.url(colpath, src[0]), [("Content-Type", "text/calendar")], body, record=False)
                        if W.World.success(s.eff):
                            live[src[0]] = body
                            res.count("writes_between_queries")
                            res.count("overwrites_changing_indexed_values")
                    continue
                fi = rng.randrange(len(pool))
                flt, tzid, shape = pool[fi]
                burst = rng.choice([1, 1, 2, 3, 7])
                for _ in range(burst):
                    reps[fi] = reps.get(fi, 0) + 1
                    fx = O.render(flt)
                    i0 = REC.index_calls
                    s, r = w.report(colpath, X.calendar_query(fx, data=False, extra=c11.tz_xml(tzid)), record=False)
                    used_index = REC.index_calls > i0
                    nq += 1
                    res.evaluations += 1
                    res.count("queries")
                    if used_index:
                        res.count("queries_answered_from_index")
                    if reps[fi] > (thr if thr is not None else 5) + 1:
                        res.count("queries_past_threshold")
                    res.seen(shape, min(reps[fi], 12), used_index, thr)
                    try:
                        ref = reference(fsp, fx, tzid)
                        ref_err = None
                    except Exception as e:
                        ref, ref_err = None, type(e).__name__
                    if r.status != 207:
                        if ref is not None:
                            cause, tail = cause_of(w, r)
                            path = "index-path" if (used_index or args["fe"] != "wsgi" or "_iter_with_filter_indexes" in tail) else "naive-path"
                            viol(f"{path}/query-answers-{r.status}/{cause}",
                                 f"query #{reps[fi]} of filter [{shape}] answered {r.status} ({cause}) while the naive evaluation on a cold store succeeds", {"filter": fx, "tz": tzid, "tail": tail[-700:]})
                        else:
                            res.count("both_fail")
                        continue
                    if ref is None:
                        res.count("reference_failed:" + ref_err)
                        continue
                    rs, _ = X.parse_multistatus(r.body)
                    got = {w.rel_name(x.href or "", colpath) for x in rs}
                    got.discard(None)
                    got.discard("")
                    res.count("comparisons")
                    if got != ref:
                        path = "index-path" if used_index or args["fe"] != "wsgi" else "naive-path"
                        groups = {}
                        for n in sorted(got ^ ref):
                            groups.setdefault(mechanism(n, live.get(n, b""), shape, fx), []).append(n)
                        for mech, names in groups.items():
                            viol(f"{path}/{mech}/result-differs-from-cold-naive-evaluation",
                                 f"query #{reps[fi]} of filter [{shape}] (threshold {thr}, index used: {used_index}): objects {names!r} are {'returned' if names[0] in got else 'not returned'} by the server but "
                                 f"{'not ' if names[0] in got else ''}by the naive evaluation of the same filter on a cold store ({mech})",
                                 {"filter": fx, "tz": tzid, "objects": {n: live.get(n, b"").decode("utf-8", "replace")[:700] for n in names[:2]}})
            res.count("index_resets", REC.resets)
        res.sample({"config": cfg})
    except Exception:
        res.inconclusive.append("harness exception: " + traceback.format_exc()[-1500:])
    finally:
        w.stop()
        common.rmtree(base)
    return res


def check(tier, seed, t0):
    th = tier == "thorough"
    shards = []
    thresholds = [0, 1, None, 50]
    n = 12 if not th else 16
    for i in range(n):
        fe = "wsgi" if i % 4 != 3 else "aio"
        shards.append({"fe": fe, "seed": seed * 100 + i, "threshold": thresholds[i % 4] if fe == "wsgi" else rng_choice(i), "sequences": 2 if not th else 12, "queries": 90 if not th else 200,
                       "unparseable": (i % 3 == 0), "paranoid": (th and i % 5 == 0)})
    for i in range(2 if not th else 6):
        shards.append({"mode": "concurrent", "fe": ["wsgi-threads", "aio"][i % 2], "seed": seed * 100 + 60 + i, "threshold": [1, 3][i % 2], "seconds": 5 if not th else 25})
    results, failures = common.run_shards("vf.props.c10", shards, timeout_s=300 if not th else 3000)
    merged = common.merge(results)
    c = merged["counters"]
    k = 1 if not th else 10
    past = max(1, c.get("queries_past_threshold", 0))
    guards = [("queries compared with the cold naive evaluation", c.get("comparisons", 0), 1500 * k), ("queries answered from the index (recording wrapper)", c.get("queries_answered_from_index", 0), 500 * k),
              ("writes between queries", c.get("writes_between_queries", 0), 60 * k), ("overwrites that change indexed values", c.get("overwrites_changing_indexed_values", 0), 30 * k),
              ("index resets", c.get("index_resets", 0), 10), ("members deleted and put back byte-identically", c.get("deleted_members_put_back_identically", 0), 5 * k),
              ("answers of concurrent clients repeating different filters", c.get("concurrent_queries_compared", 0), 200 * (1 if not th else 6))]
    return common.finish(PROP, tier, seed, "exploration", merged, failures, RULE, t0, guards=guards,
                         assumptions=["the naive evaluation of the same code on a fresh store object is the reference (RFC conformance is C11's question)", "queries in aio shards cannot be attributed to a path (no wrapper in the server process); they use thresholds 0/1"])


def rng_choice(i):
    return [0, 1][i % 2]


def replay(path):
    import json
    rp = json.load(open(path))
    cfg = rp["witness"]["config"]
    res = run_shard(dict(cfg))
    for v in res.violations:
        print("VIOLATION property=%s replay=%s" % (PROP, path))
        print("  sig=%s :: %s" % (v["sig"], v["msg"][:300]))
    return 1 if res.violations else 0


# (what later rounds of seeded changes added to the workload; part of the evidence's description of the check)
RULE += "; " + 'objects with an overridden instance in both orders and single positive conditions only the later component meets; negated text-matches on properties some objects lack'
