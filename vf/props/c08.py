"""C08  The collection tag changes exactly when the collection changes."""
from vf import common, histrun, monitors
from vf.props import _hist, _mk

PROP = "C08"
RULE = ("random request histories biased to reverts, no-op rewrites, refused requests, reads and cross-collection traffic; at every audit the content fingerprint "
        "(sorted (name, sha256(served bytes))) and the four tag views (getctag in both namespaces, sync-token, collection getetag) are recorded; checked: tag -> fingerprint "
        "functional (different contents => different tag), (fingerprint, metadata) -> tag functional on git (return to earlier state => earlier tag), tags unchanged over "
        "intervals containing only reads / refused requests / writes elsewhere, all four views equal; distinct = distinct (collection, fingerprint, metadata) states")
WEIGHTS = {"put_same": 6, "put_reser": 3, "put_change": 8, "put_revert": 8, "put_new": 8, "delete": 6, "proppatch": 1, "restart": 0.7, "put_invalid": 4, "read": 8,
           "put_cond": 4, "delete_missing": 2, "delete_cond_stale": 2, "put_uidconflict": 3}
MON = [monitors.C08Monitor]


def run_shard(args):
    return histrun.run_history(args, MON, common.Result(), weights=WEIGHTS, driver_kw={"pool": 6, "audit_every": 3})


def check(tier, seed, t0):
    shards = _hist.plan(tier, seed, quick=(12, 120, 1), thorough=(16, 150, 6))
    merged, failures = _hist.run("vf.props.c08", shards, tier)
    c = merged["counters"]
    k = 1 if tier == "quick" else 8
    guards = [("tag observations", c.get("tag_observations", 0), 2000 * k), ("returns to an earlier (contents, metadata) state", c.get("returns_to_earlier_state", 0), 50 * k),
              ("intervals without change", c.get("unchanged_intervals", 0), 500 * k), ("reads inside unchanged intervals", c.get("unchanged_interval_reads", 0), 100 * k),
              ("refused requests inside unchanged intervals", c.get("unchanged_interval_refused", 0), 100 * k),
              ("writes to other collections inside unchanged intervals", c.get("unchanged_interval_other_writes", 0), 200 * k),
              ("intervals with change", c.get("changed_intervals", 0), 200 * k), ("restarts", c.get("restarts", 0), 3)]
    return common.finish(PROP, tier, seed, "exploration", merged, failures, RULE, t0, guards=guards,
                         assumptions=["collection contents are fingerprinted from GET of every listed member at quiescent points", "a delete+recreate of a collection starts a new tag history"])


replay = _mk.make_replay(PROP, MON, WEIGHTS, {"pool": 6, "audit_every": 3})
