"""C08  The collection tag changes exactly when the collection changes."""
from vf import common, histrun, monitors
from vf.props import _hist, _mk

PROP = "C08"
RULE = ("random request histories biased to reverts, no-op rewrites, refused requests, reads and cross-collection traffic; at every audit the content fingerprint "
        "(sorted (name, sha256(served bytes))) and the four tag views (getctag in both namespaces, sync-token, collection getetag) are recorded; checked: tag -> fingerprint "
        "functional (different contents => different tag), (fingerprint, metadata) -> tag functional on git (return to earlier state => earlier tag), tags unchanged over "
        "intervals containing only reads / refused requests / writes elsewhere, all four views equal; distinct = distinct (collection, fingerprint, metadata) states")
WEIGHTS = {"put_same": 6, "put_reser": 3, "put_change": 8, "put_revert": 8, "put_new": 8, "delete": 6, "proppatch": 5, "restart": 0.7, "put_invalid": 4, "read": 8, "locked_writes": 2.0,
           "put_cond": 4, "delete_missing": 2, "delete_cond_stale": 2, "put_uidconflict": 3}
MON = [monitors.C08Monitor]


def run_shard(args):
    if args.get("mode") == "crash":
        return run_crash(args)
    wts = dict(WEIGHTS, **args.get("weights", {}))
    return histrun.run_history(args, MON, common.Result(), weights=wts, driver_kw={"pool": 6, "audit_every": 3, "blank_values": False})


def run_crash(args):
    """Histories that contain a process death: every crash point of a write (enumerated with the C04
    machinery) is a point of the collection's history; the tag <-> contents relation must hold over the
    pre-state, every crash state and the states after the operation is retried."""
    import os
    import random
    import shutil
    import traceback
    import json
    from vf import storedrv, gen
    from vf.props import c04
    res = common.Result()
    rng = random.Random(args["seed"])
    base = common.mkscratch("c08c")
    env = common.worker_env({"HOME": os.path.join(base, "home")})
    os.environ["HOME"] = os.path.join(base, "home")
    os.makedirs(os.environ["HOME"], exist_ok=True)
    import logging
    logging.disable(logging.CRITICAL)
    try:
        for backend, meta, op, prior in args["scenarios"]:
            pre = os.path.join(base, "pre")
            work = os.path.join(base, "work")
            common.rmtree(pre)
            c04.build_prestate(backend, meta, prior, rng, pre)
            bodies = {"new": gen.ical(rng, "target-uid", "NEWTOKEN", rich=False), "replace": gen.ical(rng, "prior-0b" if prior >= 4 else "prior-0", "REPLACED", rich=False)}
            common.rmtree(work)
            shutil.copytree(pre, work, symlinks=True)
            rec_file = os.path.join(base, "rec.json")
            if os.path.exists(rec_file):
                os.unlink(rec_file)
            if c04.child_run(backend, work, op, bodies, None, rec_file) != 0:
                res.inconclusive.append(f"{backend}/{op}: recording pass failed")
                continue
            n = json.load(open(rec_file))["n"]
            tag_to_fp, fp_to_tag = {}, {}

            def observe(path, where):
                st = storedrv.open_store(backend, path)
                members = {}
                for name, ct, etag in st.iter_with_etag():
                    members[name] = c04.sha(b"".join(st.get_file(name, ct, etag).content))
                fp = common.h(sorted(members.items()))
                try:
                    tag = st.get_ctag()
                except Exception as e:
                    res.violation(f"store-api/{backend}/crash-history/tag-unreadable/{type(e).__name__}", f"{backend}/{op}: {where}: get_ctag() raises {e!r} (PROPFIND of the collection would fail)",
                                  {"config": dict(args), "scenario": [backend, meta, op, prior], "where": where})
                    return
                res.count("crash_tag_observations")
                sig = f"store-api/{backend}/crash-history"
                if tag in tag_to_fp and tag_to_fp[tag][0] != fp:
                    res.violation(f"{sig}/same-tag-different-contents", f"{backend}/{op}: ctag {tag} names contents {tag_to_fp[tag][1]} and also ({where}) {sorted(members)} with different bytes",
                                  {"config": dict(args), "scenario": [backend, meta, op, prior], "where": where})
                if fp in fp_to_tag and fp_to_tag[fp][0] != tag:
                    res.violation(f"{sig}/equal-contents-different-tag", f"{backend}/{op}: equal contents have ctag {fp_to_tag[fp][0]} ({fp_to_tag[fp][1]}) and {tag} ({where})",
                                  {"config": dict(args), "scenario": [backend, meta, op, prior], "where": where})
                tag_to_fp.setdefault(tag, (fp, where))
                fp_to_tag.setdefault(fp, (tag, where))
                res.seen("crash", backend, op, where.split(",")[0], tag)
            observe(pre, "pre-state")
            for k in range(1, n + 2):
                common.rmtree(work)
                shutil.copytree(pre, work, symlinks=True)
                c04.child_run(backend, work, op, bodies, k, None)
                res.evaluations += 1
                observe(work, f"after a crash before mutation {k}/{n}")
                # the client retries after the restart (stale locks removed by the operator)
                for r_, d_, fs in os.walk(work):
                    for fn in fs:
                        if fn.endswith(".lock"):
                            os.unlink(os.path.join(r_, fn))
                try:
                    c04.do_op(backend, work, op, bodies)
                except Exception:
                    pass
                observe(work, f"after a crash before mutation {k}/{n}, restart and retry")
            res.count("crash_scenarios")
    except Exception:
        res.inconclusive.append("harness exception: " + traceback.format_exc()[-1500:])
    finally:
        common.rmtree(base)
    return res


def check(tier, seed, t0):
    shards = _hist.plan(tier, seed, quick=(12, 120, 1), thorough=(16, 150, 6))
    for i, a in enumerate(shards):
        if i % 3 == 2:
            # a server run with --defaults: its own calendar and address book are collections like any other, and every
            # restart goes through the start-up code that makes them
            a["autocreate"] = "defaults"
            a["weights"] = {"restart": 4, "proppatch": 8, "delete_col": 1.5, "mkcol_new": 1.5}
    scs = [(b, m, op, 1) for b in ("tree", "bare") for m in ("file", "gitconfig") for op in ("create", "replace", "delete")]
    for i in range(4):
        shards.append({"mode": "crash", "seed": seed * 100 + 90 + i, "scenarios": scs[i::4]})
    merged, failures = _hist.run("vf.props.c08", shards, tier)
    c = merged["counters"]
    k = 1 if tier == "quick" else 8
    guards = [("tag observations", c.get("tag_observations", 0), 2000 * k), ("returns to an earlier (contents, metadata) state", c.get("returns_to_earlier_state", 0), 50 * k),
              ("intervals without change", c.get("unchanged_intervals", 0), 500 * k), ("reads inside unchanged intervals", c.get("unchanged_interval_reads", 0), 100 * k),
              ("refused requests inside unchanged intervals", c.get("unchanged_interval_refused", 0), 100 * k),
              ("writes to other collections inside unchanged intervals", c.get("unchanged_interval_other_writes", 0), 200 * k),
              ("intervals with change", c.get("changed_intervals", 0), 200 * k), ("restarts", c.get("restarts", 0), 3),
              ("tag observations in crash states (before and after retry)", c.get("crash_tag_observations", 0), 400),
              ("collection property changes", c.get("op:proppatch", 0), 40 * k), ("calendar colours set without the leading '#'", c.get("op:proppatch_colour_without_hash", 0), 1 * k),
              ("histories of a server run with --defaults", c.get("histories_with_default_collections", 0), 3 * k), ("scripted restarts over what users did to the default collections", c.get("scripted_defaults_preludes", 0), 3 * k)]
    return common.finish(PROP, tier, seed, "exploration", merged, failures, RULE, t0, guards=guards,
                         assumptions=["collection contents are fingerprinted from GET of every listed member at quiescent points", "a delete+recreate of a collection starts a new tag history"])


replay = _mk.make_replay(PROP, MON, WEIGHTS, {"pool": 6, "audit_every": 3, "blank_values": False})


# (what later rounds of seeded changes added to the workload; part of the evidence's description of the check)
RULE += "; " + 'a third of the histories run the server with --defaults (its calendar and address book are modelled collections; scripted user actions on them followed by a restart)'
