"""Factory for thin history-property modules."""
import json

from vf import common, histrun
from vf.props import _hist


def make_replay(prop, monitor_classes, weights, driver_kw=None):
    def replay(path):
        rp = json.load(open(path))
        cfg = rp["witness"]["config"]
        res = common.Result()
        if cfg.get("mode") == "store":
            from vf import storedrv
            storedrv.run({"backend": cfg["backend"], "seed": cfg["seed"] // 1000, "steps": cfg["steps"], "histories": cfg["seed"] % 1000 + 1}, res, prop)
        else:
            histrun.run_history({"fe": cfg["fe"], "prefix": cfg["prefix"], "seed": cfg["seed"] // 1000, "steps": cfg["steps"], "histories": cfg["seed"] % 1000 + 1,
                                 "bare": cfg.get("bare", True), "autocreate": cfg.get("autocreate", "autocreate")}, monitor_classes, res,
                                weights=dict(weights or {}, **cfg.get("weights", {})), driver_kw=driver_kw)
        for v in res.violations:
            print("VIOLATION property=%s replay=%s" % (prop, path))
            print("  sig=%s :: %s" % (v["sig"], v["msg"][:300]))
        return 1 if res.violations else 0
    return replay
