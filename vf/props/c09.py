"""C09  The git repository is a faithful, append-only history that git tools can use."""
from vf import common, histrun, monitors
from vf.props import _hist, _mk

PROP = "C09"
RULE = ("random request histories on tree-git and bare-git collections; after every step the git CLI inspects the addressed collection's repository: previous head is an "
        "ancestor of the new one, every new commit has one parent and alters the tree, exactly one new commit for a successful changing member write and none for "
        "refused / no-op / read requests or for untouched collections, `git ls-tree HEAD` = served members with blob id = sha1('blob n\\0'+served bytes), `git status "
        "--porcelain` clean for tree stores (nested collection directories excepted), `git fsck --strict` clean; distinct = distinct (backend, head commit) states")
WEIGHTS = {"put_same": 6, "put_reser": 4, "put_change": 8, "put_revert": 4, "put_new": 9, "delete": 6, "proppatch": 3, "restart": 1.5, "put_invalid": 3, "read": 4,
           "put_cond": 3, "delete_missing": 2, "put_uidconflict": 2, "locked_writes": 2.5, "put_reserved": 2.0, "control_dir": 3.0, "delete_col": 2.5, "mkcol_new": 2.5, "put_type_confusion": 2.0, "proppatch": 9, "git_branch_rename": 1.5}
MON = [monitors.C09Monitor]


def run_shard(args):
    return histrun.run_history(args, MON, common.Result(), weights=WEIGHTS, driver_kw={"pool": 7, "audit_every": 6})


def check(tier, seed, t0):
    shards = _hist.plan(tier, seed, quick=(14, 60, 1), thorough=(16, 120, 5))
    merged, failures = _hist.run("vf.props.c09", shards, tier)
    c = merged["counters"]
    k = 1 if tier == "quick" else 8
    guards = [("repository audits", c.get("repo_audits", 0), 1000 * k), ("tree == served comparisons", c.get("tree_comparisons", 0), 800 * k),
              ("changing writes counted", c.get("changing_writes", 0), 200 * k), ("non-changing requests counted", c.get("nonchanging_requests", 0), 100 * k),
              ("untouched intervals", c.get("untouched_intervals", 0), 300 * k), ("git status checks", c.get("status_checks", 0), 400 * k),
              ("fsck runs", c.get("fsck_runs", 0), 150 * k), ("restarts", c.get("restarts", 0), 2),
              ("requests below a store's control directory", c.get("op:control_dir", 0), 10 * k), ("collections made inside a bare repository's own directories", c.get("op:control_dir_bare_nested", 0), 1 * k),
              ("properties set to the value they already had (after another property was set)", c.get("noop_property_sets", 0), 2 * k),
              ("branches renamed with the git CLI while the server ran, followed by a write", c.get("op:git_branch_rename", 0), 3 * k)]
    return common.finish(PROP, tier, seed, "exploration", merged, failures, RULE, t0, guards=guards,
                         assumptions=["git 2.39 CLI is the independent reader of the repositories", "untracked nested collection directories are part of the default layout, not a dirty tree"])


replay = _mk.make_replay(PROP, MON, WEIGHTS, {"pool": 7, "audit_every": 6})


# (what later rounds of seeded changes added to the workload; part of the evidence's description of the check)
RULE += "; " + 'a PROPPATCH that sets a property to the value it already has adds no commit; the branch of a tree-git collection renamed with the git CLI under the running server, then a write'
