"""C02  ETags are strong validators and agree across every view of a resource."""
from vf import common, histrun, monitors
from vf.props import _hist

PROP = "C02"
RULE = ("random request histories biased to same-byte rewrites, re-serialisations, changes and reverts; at every audit each member's ETag is collected from PUT/POST "
        "response, GET, HEAD, PROPFIND getetag, multiget, query (match-all), sync-collection (empty and incremental token) and must agree; per path the relation "
        "ETag <-> sha256(served bytes) must be a bijection over the whole history; store-API histories check import_one's etag vs iter_with_etag and the same bijection "
        "(vdir md5, git blob ids); a concurrent phase (real CLI server, read-delay injection) issues GETs while another client overwrites the same members with uniquely "
        "tokened bodies: ETag header and body of one response must belong to one acknowledged write; distinct = distinct (backend, path, etag) observations")
WEIGHTS = {"put_same": 8, "put_reser": 5, "put_change": 8, "put_revert": 6, "put_new": 8, "delete": 3, "proppatch": 2, "restart": 0.7, "put_invalid": 1, "read": 2}


def run_shard(args):
    res = common.Result()
    if args.get("mode") == "store":
        from vf import storedrv
        return storedrv.run(args, res, PROP)
    if args.get("mode") == "concurrent":
        from vf.props import c17
        return c17.run_concurrent(args)
    return histrun.run_history(args, [monitors.C02Monitor], res, weights=WEIGHTS)


def check(tier, seed, t0):
    shards = _hist.plan(tier, seed, quick=(12, 90, 1), thorough=(14, 150, 6))
    for i, a in enumerate(shards):
        if i % 3 == 1:
            # an account whose git configuration asks for line-ending conversion on check-in: what the server stores
            # and serves, and the ETags it hands out, must not depend on it
            a["server_gitconfig"] = "[core]\n\tautocrlf = input\n[user]\n\tname = srv\n\temail = srv@example.com\n"
    for i, b in enumerate(["vdir", "bare-mem", "bare-disk", "tree"]):
        shards.append({"mode": "store", "backend": b, "seed": seed * 100 + 60 + i, "steps": 200 if tier == "quick" else 1500, "histories": 2 if tier == "quick" else 6})
    for i in range(4 if tier == "quick" else 12):
        # GETs concurrent with overwrites (real CLI server, read-delay injection): the ETag header and the body of one response must belong to one write
        shards.append({"mode": "concurrent", "judge": "get", "backend": ["tree", "bare"][i % 2], "kind": ["calendar", "addressbook"][(i // 2) % 2], "seed": seed * 1000 + 800 + i,
                       "seconds": 6 if tier == "quick" else 30, "delay_ms": [4, 8][(i // 2) % 2]})
    merged, failures = _hist.run("vf.props.c02", shards, tier)
    c = merged["counters"]
    k = 1 if tier == "quick" else 8
    guards = [("agreement checks (all views of one member at one point)", c.get("agreement_checks", 0), 1500 * k),
              ("same-byte rewrites", c.get("op:put_same", 0), 50 * k), ("byte-changing rewrites", c.get("op:put_change", 0), 50 * k),
              ("reverts", c.get("op:put_revert", 0), 20 * k), ("re-serialisations", c.get("op:put_reser", 0), 10 * k),
              ("etag re-observed after other steps", c.get("etag_reobserved", 0), 500 * k), ("store-API etag observations", c.get("etag_observations", 0), 1000 * k),
              ("restarts", c.get("restarts", 0), 3), ("(ETag, body) pairs of GETs concurrent with overwrites", c.get("concurrent_pairs_judged:get", 0), 300 * (1 if tier == "quick" else 6)),
              ("overwrites during concurrent runs", c.get("concurrent_writes", 0), 100),
              ("histories under an account with core.autocrlf=input", c.get("histories_with_a_git_configuration_for_the_server_account", 0), 3)]
    for v in monitors.C02Monitor.VIEWS:
        guards.append(("view " + v, c.get("view:" + v, 0), 100 * k))
    return common.finish(PROP, tier, seed, "exploration", merged, failures, RULE, t0, guards=guards,
                         assumptions=["'byte-identical bodies' is decided on the GET body at the same quiescent point", "the harness is the only client (quiescent audits)"])


def replay(path):
    from vf.props import c01
    print("replay: re-run the recorded shard configuration")
    return _replay(path)


def _replay(path):
    import json
    rp = json.load(open(path))
    cfg = rp["witness"]["config"]
    res = common.Result()
    if cfg.get("mode") == "concurrent":
        res = run_shard(dict(cfg))
    elif cfg.get("mode") == "store":
        from vf import storedrv
        storedrv.run({"backend": cfg["backend"], "seed": cfg["seed"] // 1000, "steps": cfg["steps"], "histories": cfg["seed"] % 1000 + 1}, res, PROP)
    else:
        histrun.run_history({"fe": cfg["fe"], "prefix": cfg["prefix"], "seed": cfg["seed"] // 1000, "steps": cfg["steps"], "histories": cfg["seed"] % 1000 + 1, "bare": cfg.get("bare", True)}, [monitors.C02Monitor], res, weights=WEIGHTS)
    for v in res.violations:
        print("VIOLATION property=%s replay=%s" % (PROP, path))
        print("  sig=%s :: %s" % (v["sig"], v["msg"][:300]))
    return 1 if res.violations else 0
