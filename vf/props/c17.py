"""C17  multiget returns, for each requested href, the current resource or 404."""
import os
import random
import re
import traceback
import urllib.parse

from vf import common, gen, world as W, davxml as X
from vf.props.c16 import gen_names, feature

PROP = "C17"
RULE = ("at several points of a write history (members created, overwritten, deleted, with URL-hostile names) calendar-multiget / addressbook-multiget is issued with lists of "
        "1-12 hrefs drawn from: as emitted by PROPFIND, fully percent-encoded, lower-case escapes, absolute URL, deleted member, never-existing member, member of another "
        "collection of the same kind, member of the other media kind, the collection itself, path outside the route prefix, '<prefix>x/...' sibling-prefix, empty, '%', '%zz', "
        "dot-segment spelling, duplicates; each requested href class (equal after percent-decoding and removal of scheme/authority) must be answered exactly once; found "
        "resources must carry the ETag and (modulo XML line-end normalisation) the body of a GET at the same quiescent point; everything else must be not-found and never carry "
        "data; every list is replayed href by href to check independence; distinct = distinct (front end, prefix, kind, href class, outcome)")


def ext_hidden_behind_colon(name):
    """mechanism of the known finding: mimetypes.guess_type() treats the text up to the
    first ':' as a URL scheme and looks for the extension in the rest only; if the rest
    has no dot other than leading ones (':.ics', ':...vcf') no extension is found"""
    import posixpath
    if ":" not in name:
        return False
    rest = name.split(":", 1)[1]
    return posixpath.splitext(rest)[1] == "" and posixpath.splitext(name)[1] != ""


def remove_dot_segments(p):
    """RFC 3986 5.2.4"""
    out = []
    segs = p.split("/")
    for i, seg in enumerate(segs):
        last = i == len(segs) - 1
        if seg == ".":
            if last:
                out.append("")
        elif seg == "..":
            if len(out) > 1:
                out.pop()
            if last:
                out.append("")
        else:
            out.append(seg)
    return "/".join(out)


def norm_href(h, prefix):
    """class key: two hrefs are the same href iff they are equivalent under RFC 3986
    syntax-based normalisation (6.2.2: escapes, dot segments) after resolution against
    the request URL (scheme and authority dropped).  Doubled or trailing slashes are
    *not* equivalent spellings: such an href is a distinct href and has its own answer."""
    if h is None:
        return None
    try:
        sp = urllib.parse.urlsplit(h)
        p = urllib.parse.unquote(sp.path)
    except ValueError:
        p = urllib.parse.unquote(h)
    return remove_dot_segments(p) if p.startswith("/") else p


class Runner:
    def __init__(self, w, res, rng, cfg):
        self.w, self.res, self.rng, self.cfg = w, res, rng, cfg
        self.live = {}      # colpath -> {name: None}
        self.dead = {}      # colpath -> [names]
        self.kinds = {}
        self.emitted = {}   # (colpath, name) -> href text emitted by PROPFIND
        self.log = []

    def viol(self, sig, msg, extra=None):
        self.res.violation(sig, msg, {"config": self.cfg, "detail": extra, "requests": self.log[-6:]})

    def where(self):
        return "%s%s" % (self.w.fe_kind, "" if self.w.prefix == "/" else "+prefix")

    def put(self, colpath, name, kind):
        w, rng = self.w, self.rng
        tok = w.new_token()
        uid = "c17-" + tok
        body = gen.ical(rng, uid, tok) if kind == "calendar" else gen.vcard(rng, uid, tok)
        ct = W.CT[kind]
        if rng.random() < 0.2:
            # uploaded the way a generic WebDAV client (or curl) does: the server stores such a body as it came
            ct = rng.choice(["application/octet-stream", "text/plain"])
            self.res.count("members_uploaded_with_a_generic_content_type")
        s, r = w.call("put", "PUT", w.url(colpath, name), [("Content-Type", ct)], body, record=False)
        if W.World.success(s.eff):
            self.live.setdefault(colpath, {})[name] = tok
            if name in self.dead.get(colpath, []):
                self.dead[colpath].remove(name)
        return s

    def delete(self, colpath, name):
        s, r = self.w.call("delete", "DELETE", self.w.url(colpath, name), [], None, record=False)
        if W.World.success(s.eff):
            self.live[colpath].pop(name, None)
            self.dead.setdefault(colpath, []).append(name)

    def harvest(self, colpath):
        w = self.w
        s, r = w.propfind(w.url(colpath), [X.P_ETAG], "1", record=False)
        rs, _ = X.parse_multistatus(r.body)
        for resp in rs:
            nm = w.rel_name(resp.href or "", colpath)
            if nm:
                self.emitted[(colpath, nm)] = resp.href

    def build_list(self, colpath, kind, othercol, otherkindcol):
        """-> list of (href, class, expectation) ; expectation in found/notfound/free"""
        w, rng = self.w, self.rng
        live = sorted(self.live.get(colpath, {}))
        dead = list(self.dead.get(colpath, []))
        ext = ".ics" if kind == "calendar" else ".vcf"
        n = rng.randint(1, 12)
        out = []
        classes = ["emitted", "encoded", "lower-escapes", "absolute-url", "deleted", "never-existed", "other-collection", "other-kind", "collection-itself", "outside-prefix",
                   "sibling-prefix", "empty", "lone-percent", "bad-escape", "dot-segments", "duplicate", "absolute-url-other-host", "root", "parent-collection", "trailing-slash-on-member",
                   "bogus-parent-same-basename", "bogus-parent-same-basename", "alias-with-canonical", "alias-with-canonical", "sibling-with-name-prefix", "sibling-with-name-prefix"]
        for _ in range(n):
            c = rng.choice(classes)
            if c == "emitted" and live:
                nm = rng.choice(live)
                h = self.emitted.get((colpath, nm))
                if h:
                    out.append((h, c, "found", (colpath, nm)))
            elif c == "encoded" and live:
                nm = rng.choice(live)
                out.append((w.url(colpath, nm), c, "found", (colpath, nm)))
            elif c == "lower-escapes" and live:
                nm = rng.choice(live)
                h = re.sub(r"%[0-9A-F]{2}", lambda m: m.group(0).lower(), w.url(colpath, nm))
                out.append((h, c, "found", (colpath, nm)))
            elif c == "absolute-url" and live:
                nm = rng.choice(live)
                out.append(("http://localhost" + w.url(colpath, nm), c, "found", (colpath, nm)))
            elif c == "absolute-url-other-host" and live:
                nm = rng.choice(live)
                out.append(("http://elsewhere.example" + w.url(colpath, nm), c, "free", (colpath, nm)))
            elif c == "deleted" and dead:
                out.append((w.url(colpath, rng.choice(dead)), c, "notfound", None))
            elif c == "never-existed":
                out.append((w.url(colpath, "never-%d%s" % (rng.randint(1, 3), ext)), c, "notfound", None))
            elif c == "other-collection" and self.live.get(othercol):
                nm = rng.choice(sorted(self.live[othercol]))
                out.append((w.url(othercol, nm), c, "found", (othercol, nm)))
            elif c == "sibling-with-name-prefix" and self.live.get(colpath.rstrip("/") + "x/"):
                # a collection next to this one whose name merely begins with this one's name
                sib = colpath.rstrip("/") + "x/"
                nm = rng.choice(sorted(self.live[sib]))
                out.append((w.url(sib, nm), c, "found", (sib, nm)))
            elif c == "other-kind" and self.live.get(otherkindcol):
                nm = rng.choice(sorted(self.live[otherkindcol]))
                out.append((w.url(otherkindcol, nm), c, "nodata", (otherkindcol, nm)))
            elif c == "collection-itself":
                out.append((w.url(colpath), c, "nodata", None))
            elif c == "parent-collection":
                out.append((w.url(w.parent_of(colpath)), c, "nodata", None))
            elif c == "root":
                out.append((w.prefix, c, "nodata", None))
            elif c == "outside-prefix" and w.prefix != "/" and live:
                nm = rng.choice(live)
                out.append(("/other" + colpath + gen.quote_name(nm), c, "notfound", None))
                out.append((colpath + gen.quote_name(nm), c + "-unprefixed", "notfound", None))
            elif c == "sibling-prefix" and w.prefix != "/" and live:
                nm = rng.choice(live)
                # '/dav' + 'x' + '/user/...': shares the prefix as a string, not as a path
                out.append((w.prefix.rstrip("/") + "x" + colpath + gen.quote_name(nm), c, "notfound", None))
                out.append((w.prefix.rstrip("/") + colpath.lstrip("/") + gen.quote_name(nm), c + "-glued", "notfound", None))
            elif c == "empty":
                out.append(("", c, "notfound", None))
            elif c == "lone-percent":
                out.append((w.url(colpath) + "%", c, "notfound", None))
            elif c == "bad-escape":
                out.append((w.url(colpath) + "%zz" + ext, c, "notfound", None))
            elif c == "dot-segments" and live:
                nm = rng.choice(live)
                out.append((w.url(colpath) + "../" + colpath.rstrip("/").rsplit("/", 1)[-1] + "/" + gen.quote_name(nm), c, "free", (colpath, nm)))
            elif c == "trailing-slash-on-member" and live:
                nm = rng.choice(live)
                out.append((w.url(colpath, nm) + "/", c, "free", (colpath, nm)))
            elif c == "bogus-parent-same-basename" and live:
                # the last segment names a real member, the parent does not exist / is not a collection
                nm = rng.choice(live)
                q = gen.quote_name(nm)
                variants = [w.url(w.parent_of(colpath)) + "never-existed/" + q, w.url(colpath, nm) + "/" + q, w.url("/user/") + q, w.prefix.rstrip("/") + "/nowhere/at/all/" + q]
                out.append((rng.choice(variants), c, "notfound", None))
            elif c == "alias-with-canonical" and live:
                # several spellings of one member in the same list; the ones that are not
                # RFC 3986-equivalent are distinct hrefs, each owed its own answer
                nm = rng.choice(live)
                canon = w.url(colpath, nm)
                cp = w.url(colpath)
                last = colpath.rstrip("/").rsplit("/", 1)[-1]
                alts = [("doubled-slash", cp + "/" + gen.quote_name(nm)), ("doubled-slash", cp.rstrip("/").rsplit("/", 1)[0] + "//" + last + "/" + gen.quote_name(nm)),
                        ("dot-segments", cp + "./" + gen.quote_name(nm)), ("dot-segments", cp + "zz/../" + gen.quote_name(nm))]
                pick = [(canon, "encoded", "found", (colpath, nm))] + [(a, k, "free", (colpath, nm)) for k, a in rng.sample(alts, rng.randint(1, 3))]
                rng.shuffle(pick)
                out += pick
            elif c == "duplicate" and out:
                out.append(rng.choice(out))
        return out

    def multiget(self, colpath, kind, hrefs):
        if getattr(self, "noslash", False):
            # the same report addressed to the collection URL without its trailing slash
            s, r = self.w.rd("report", "REPORT", self.w.url(colpath).rstrip("/"), [("Depth", "1"), X.XML_CT], X.multiget(kind, hrefs, data=True), record=False)
            self.res.count("multigets_to_url_without_trailing_slash")
        else:
            s, r = self.w.report(colpath, X.multiget(kind, hrefs, data=True), record=False)
        self.log.append({"op": "multiget", "col": colpath, "hrefs": hrefs, "status": s.status})
        del self.log[:-20]
        if r.status != 207:
            return None, s
        try:
            rs, _ = X.parse_multistatus(r.body)
        except X.MalformedXML as e:
            return "ill-formed: %s" % e, s
        return rs, s

    def classify(self, resp, kind):
        """-> (outcome, etag, data) outcome in found / notfound / nodata / odd"""
        dprop = X.P_CALDATA if kind == "calendar" else X.P_ADDRDATA
        data = resp.prop_text(dprop)
        etag = resp.prop_text(X.P_ETAG)
        if resp.status == 404:
            return ("notfound" if data is None else "odd-404-with-data"), etag, data
        if data is not None:
            return "found", etag, data
        return "nodata", etag, None

    def judge_list(self, colpath, kind, items):
        w, res = self.w, self.res
        self.noslash = self.rng.random() < 0.3
        hrefs = [h for h, _, _, _ in items]
        rs, s = self.multiget(colpath, kind, hrefs)
        res.evaluations += 1
        res.count("lists")
        if rs is None:
            self.viol(f"{self.where()}/{kind}/report-refused/{'+'.join(sorted(set(c for _, c, _, _ in items)))[:60]}", f"multiget {hrefs!r} answered {s.status}")
            return
        if isinstance(rs, str):
            self.viol(f"{self.where()}/{kind}/report-ill-formed", f"multiget {hrefs!r}: {rs}")
            return
        # group requests into classes
        classes = {}
        for (h, c, exp, ref) in items:
            classes.setdefault(norm_href(h, w.prefix), []).append((h, c, exp, ref))
        answered = {}
        for resp in rs:
            answered.setdefault(norm_href(resp.href, w.prefix), []).append(resp)
        for key, reqs in classes.items():
            h, c, exp, ref = reqs[0]
            res.count("hrefs_judged")
            res.count("class:" + c)
            got = answered.get(key, [])
            if c in ("empty", "lone-percent", "bad-escape") and not got:
                # a malformed href has no well-defined echo; accept one answer under any spelling that is 404
                got = [r for k, rr in answered.items() if k not in classes for r in rr]
            # the same href (or another spelling of it) requested k times may be
            # answered once or once per request
            if len(got) > 1 and len(got) <= len(reqs) and len(set(self.classify(g, kind) for g in got)) == 1:
                got = got[:1]
            if len(got) != 1:
                self.viol(f"{self.where()}/{kind}/{c}/answered-{len(got)}-times", f"multiget {hrefs!r}: href {h!r} ({c}) answered {len(got)} times; response hrefs: {[r.href for r in rs]!r}")
                continue
            outcome, etag, data = self.classify(got[0], kind)
            res.seen(self.where(), kind, c, outcome)
            res.count("outcome:" + outcome)
            if outcome.startswith("odd"):
                self.viol(f"{self.where()}/{kind}/{c}/{outcome}", f"multiget: href {h!r} ({c}): status 404 together with data")
                continue
            if exp == "found":
                if outcome != "found":
                    st_, et_, b_, r_ = w.fetch(ref[0], ref[1])
                    ct_ = (r_.header("Content-Type") or "").split(";")[0]
                    if st_ == 200 and ct_ != W.CT[kind]:
                        # the server itself does not regard the member as being of this kind
                        ncls = "name-with-extension-hidden-behind-colon" if ext_hidden_behind_colon(ref[1]) else feature(ref[1]) + "-name"
                        self.viol(f"member-typed-{ct_}-by-server/{ncls}/answered-{outcome}", f"multiget: live member {ref!r} (uploaded as {W.CT[kind]}) is served as {ct_!r} and answered {outcome}")
                    else:
                        self.viol(f"{self.where()}/{kind}/{c}/existing-resource-answered-{outcome}", f"multiget {hrefs!r}: href {h!r} ({c}) addresses live member {ref!r} but was answered {outcome}")
                    continue
                self.compare_with_get(ref, etag, data, c, kind, h)
            elif exp in ("notfound", "nodata"):
                if outcome == "found":
                    self.viol(f"{self.where()}/{kind}/{c}/data-for-href-that-must-not-have-any", f"multiget {hrefs!r}: href {h!r} ({c}) was answered with data")
            elif exp == "free":
                if outcome == "found":
                    self.compare_with_get(ref, etag, data, c, kind, h)
            # independence: the same href alone
            rs1, s1 = self.multiget(colpath, kind, [h])
            res.count("singleton_replays")
            if rs1 is None or isinstance(rs1, str):
                self.viol(f"{self.where()}/{kind}/{c}/singleton-replay-failed", f"multiget [{h!r}] alone: {s1.status}")
                continue
            if len(rs1) != 1:
                self.viol(f"{self.where()}/{kind}/{c}/singleton-answered-{len(rs1)}-times", f"multiget [{h!r}] alone gave {len(rs1)} responses")
                continue
            o1, e1, d1 = self.classify(rs1[0], kind)
            if (o1, e1, d1) != (outcome, etag, data):
                self.viol(f"{self.where()}/{kind}/{c}/answer-depends-on-other-hrefs", f"href {h!r} ({c}): answered {outcome} (etag {etag}) inside {hrefs!r} but {o1} (etag {e1}) alone")

    def compare_with_get(self, ref, etag, data, c, kind, h):
        colpath, nm = ref
        st, et, body, _ = self.w.fetch(colpath, nm)
        self.res.count("found_compared_with_get")
        if st != 200:
            self.viol(f"{self.where()}/{kind}/{c}/data-for-resource-get-cannot-read", f"multiget gave data for {h!r} but GET -> {st}")
            return
        if etag != et:
            self.viol(f"{self.where()}/{kind}/{c}/etag-differs-from-get", f"multiget etag {etag} for {h!r}, GET says {et}")
        want = body.decode("utf-8", "replace").replace("\r\n", "\n").replace("\r", "\n")
        if (data or "").replace("\r\n", "\n") != want:
            self.viol(f"{self.where()}/{kind}/{c}/data-differs-from-get", f"multiget data for {h!r} differs from GET body", {"multiget": (data or "")[:600], "get": want[:600]})


def run_concurrent(args):
    """multiget (and GET) while another client overwrites the same members, real CLI
    server, delays injected at the server's reads of index / refs.  Every body carries a
    unique token and every successful PUT reports its ETag, so the pair (ETag, data) of
    a multiget answer identifies two writes: they must be the same write."""
    import threading
    import time
    from vf import fe as FE
    res = common.Result()
    rng = random.Random(args["seed"])
    base = common.mkscratch("c17c")
    agent = {"log": None, "delay_read_ms": args.get("delay_ms", 6), "delay_read_re": r"(/index$|/refs/heads/|/HEAD$|packed-refs$)", "delay_seed": args["seed"]}
    w = W.World(base, fe_kind="aio", prefix="/", seed=args["seed"], agent=agent)
    w.res = res
    kind = args["kind"]
    ext = ".ics" if kind == "calendar" else ".vcf"
    try:
        w.start()
        col = "/user/calendars/cc/" if kind == "calendar" else "/user/contacts/cc/"
        if args["backend"] == "bare":
            w.stop()
            w.provision_bare(col, kind, meta="gitconfig")
            w.start()
        else:
            w.mkcol(col, kind)
        names = ["m%d%s" % (i, ext) for i in range(3)]
        etag_token = {}     # etag -> token, from PUT responses only
        lock = threading.Lock()
        stop = threading.Event()
        counts = {"writes": 0, "multigets": 0, "pairs": 0, "gets": 0, "errors": 0}
        seen_pairs = []

        def mk(r, nm, tok):
            return gen.ical(r, "uid-" + nm, tok, rich=False) if kind == "calendar" else gen.vcard(r, "uid-" + nm, tok, rich=False)

        def put(r, nm, tok):
            resp = FE.raw_http(w.fe.addr, "PUT", w.url(col, nm), [("Content-Type", W.CT[kind])], mk(r, nm, tok), timeout=30)
            et = resp.header("ETag")
            if resp.status in (201, 204) and et:
                with lock:
                    etag_token.setdefault(et, set()).add(tok)
                counts["writes"] += 1

        r0 = random.Random(args["seed"])
        for nm in names:
            put(r0, nm, "c17c%dx0z" % args["seed"])

        def writer():
            r = random.Random(args["seed"] + 1)
            k = 0
            while not stop.is_set():
                k += 1
                put(r, r.choice(names), "c17c%dx%dz" % (args["seed"], k))
                time.sleep(r.random() * 0.01)

        tokre = re.compile(r"c17c\d+x\d+z")

        prop_mixups = []

        def reader(with_data=True):
            r = random.Random(args["seed"] + 2 + (0 if with_data else 7))
            while not stop.is_set():
                if r.random() < (0.8 if args.get("judge", "multiget") == "multiget" else 0.25):
                    hrefs = [w.url(col, nm) for nm in r.sample(names, r.randint(1, 3))]
                    if not with_data:
                        # a second client that only wants ETags: neither request may be answered with the other's property list
                        hrefs = [w.url(col, r.choice(names))]
                    resp = FE.raw_http(w.fe.addr, "REPORT", w.url(col), [("Depth", "1"), X.XML_CT], X.multiget(kind, hrefs, data=with_data), timeout=30)
                    if resp.status != 207:
                        counts["errors"] += 1
                        continue
                    counts["multigets"] += 1
                    try:
                        rs, _ = X.parse_multistatus(resp.body)
                    except X.MalformedXML:
                        counts["errors"] += 1
                        continue
                    for x in rs:
                        data = x.prop_text(X.P_CALDATA if kind == "calendar" else X.P_ADDRDATA)
                        et = x.prop_text(X.P_ETAG)
                        dprop = X.P_CALDATA if kind == "calendar" else X.P_ADDRDATA
                        counts["answers"] = counts.get("answers", 0) + 1
                        if with_data and x.status != 404 and dprop not in x.props:
                            prop_mixups.append(("data-requested-but-not-answered", x.href))
                        if not with_data and dprop in x.props:
                            prop_mixups.append(("data-answered-but-not-requested", x.href))
                        if data is not None and et is not None:
                            m = tokre.search(re.sub(r"\r?\n[ \t]", "", data))
                            seen_pairs.append(("multiget", x.href, et, m.group(0) if m else "no-token:" + repr(data[:300])))
                else:
                    nm = r.choice(names)
                    resp = FE.raw_http(w.fe.addr, "GET", w.url(col, nm), [], None, timeout=30)
                    if resp.status == 200 and resp.header("ETag"):
                        m = tokre.search(re.sub(r"\r?\n[ \t]", "", resp.body.decode("utf-8", "replace")))
                        seen_pairs.append(("get", nm, resp.header("ETag"), m.group(0) if m else None))
                        counts["gets"] += 1

        ts = [threading.Thread(target=writer), threading.Thread(target=reader), threading.Thread(target=reader, args=(False,))]
        for t in ts:
            t.start()
        # run for the given time, and on a loaded machine longer: until the writer has done the work the guards count on
        # (the verdict depends on the operations observed, not on the wall clock)
        t_stop = time.monotonic() + args["seconds"]
        while time.monotonic() < t_stop or (counts.get("writes", 0) < args.get("min_writes", 10 * args["seconds"]) and time.monotonic() < t_stop + 4 * args["seconds"]):
            time.sleep(0.2)
        stop.set()
        for t in ts:
            t.join()
        overlapping = 0
        for (via, href, et, tok) in seen_pairs:
            res.evaluations += 1
            toks = etag_token.get(et)
            if toks is None:
                res.count("concurrent_pairs_with_etag_of_unacknowledged_write")
                continue
            res.count("concurrent_pairs_judged")
            res.count("concurrent_pairs_judged:" + via)
            if tok not in toks:
                judge = args.get("judge", "multiget")
                if via != judge:
                    # the other view is not the calling property's subject: an observation
                    res.count("observation:%s-etag-body-mismatch" % via)
                    continue
                if via == "multiget":
                    res.violation(f"aio/{args['backend']}/{kind}/concurrent-overwrite/etag-of-one-write-with-data-of-another",
                                  f"multiget answered {href!r} with ETag {et} (issued for body {sorted(toks)!r}) together with the data of write {tok!r}", {"config": dict(args)})
                else:
                    res.violation(f"aio/{args['backend']}/{kind}/concurrent-overwrite/get-serves-etag-of-one-write-with-body-of-another",
                                  f"GET {href!r} answered ETag {et} (issued for body {sorted(toks)!r}) with the body of write {tok!r}: one ETag, two byte strings", {"config": dict(args)})
        res.count("concurrent_answers_checked_for_their_property_list", counts.get("answers", 0))
        for (what, href) in prop_mixups[:50]:
            if args.get("judge", "multiget") == "multiget":
                res.violation(f"aio/{args['backend']}/{kind}/concurrent-multigets/{what}", f"two clients sent multigets with different property lists at the same time: the answer for {href!r} has the other request's property list ({what})", {"config": dict(args)})
            else:
                res.count("observation:multiget-" + what)
        res.count("concurrent_runs")
        res.count("concurrent_writes", counts["writes"])
        res.count("concurrent_multigets", counts["multigets"])
        res.count("concurrent_errors", counts["errors"])
        res.seen("concurrent", args["backend"], kind, len(set(e for _, _, e, _ in seen_pairs)) // 10)
        res.sample({"config": dict(args), "counts": counts, "distinct_etags_observed": len(set(e for _, _, e, _ in seen_pairs))}, cap=2)
    except Exception:
        res.inconclusive.append("harness exception: " + traceback.format_exc()[-1500:])
    finally:
        w.stop()
        common.rmtree(base)
    return res


def run_two_workers(args):
    """two server processes on one data directory (a pre-forking deployment): worker B acknowledges an overwrite, then
    worker A is asked - multiget and GET must report the resource as it is now.  The overwrites keep the size of the
    body and come in quick succession (several per second), with a read by A in between."""
    from vf import fe as FE
    res = common.Result()
    rng = random.Random(args["seed"])
    base = common.mkscratch("c17w")
    w = W.World(base, fe_kind="aio", prefix="/", seed=args["seed"])
    w.res = res
    fe2 = None
    try:
        w.start()
        w.stop()
        w.provision_bare("/user/calendars/barecal/", "calendar", meta="gitconfig")
        w.start()
        w.mkcol("/user/calendars/cal0/", "calendar")
        os.makedirs(os.path.join(base, "w2"), exist_ok=True)
        fe2 = FE.AioFE(w.root, os.path.join(base, "w2"), principal=w.principal, autocreate=None, prefix=w.prefix)
        cols = ["/user/calendars/cal0/", "/user/calendars/barecal/"]
        for rnd in range(args["rounds"]):
            colpath = cols[rnd % 2]
            backend = "tree" if "cal0" in colpath else "bare"
            name = "w%d.ics" % (rnd % 3)
            target = w.url(colpath, name)
            writer, reader = (fe2, w.fe) if rnd % 4 < 2 else (w.fe, fe2)
            for k in range(4):
                tok = "tw%05dx%dz" % (rnd, k)          # same length every time
                body = ("BEGIN:VCALENDAR\r\nVERSION:2.0\r\nPRODID:-//vf//c17//EN\r\nBEGIN:VEVENT\r\nUID:c17-two-%s\r\nDTSTAMP:20240101T000000Z\r\nDTSTART:20240102T100000Z\r\n"
                        "SUMMARY:%s\r\nEND:VEVENT\r\nEND:VCALENDAR\r\n" % (name, tok)).encode()
                rp = writer.request("PUT", target, [("Content-Type", "text/calendar")], body)
                if rp.status not in (201, 204):
                    res.count("two_workers_put_refused:%s" % rp.status)
                    continue
                et_put = rp.header("ETag")
                rm = reader.request("REPORT", w.url(colpath), [("Depth", "1"), X.XML_CT], X.multiget("calendar", [target]))
                rg = reader.request("GET", target, [], None)
                res.evaluations += 1
                res.count("two_worker_reads_after_an_acknowledged_overwrite")
                res.seen("two-workers", backend, k, rm.status, rg.status)
                if rg.status != 200 or tok.encode() not in (rg.body or b""):
                    res.violation(f"two-workers/{backend}/get-by-the-other-worker-is-stale", f"worker B acknowledged PUT {target} ({tok}); GET by worker A -> {rg.status} without that content", {"config": dict(args)})
                if rm.status != 207 or tok.encode() not in (rm.body or b""):
                    res.violation(f"two-workers/{backend}/multiget-by-the-other-worker-is-stale", f"worker B acknowledged PUT {target} ({tok}); multiget by worker A -> {rm.status} without that content", {"config": dict(args)})
                elif et_put and et_put.strip('"').encode() not in rm.body:
                    res.violation(f"two-workers/{backend}/multiget-etag-is-not-the-acknowledged-one", f"worker B acknowledged PUT {target} with ETag {et_put}; the multiget by worker A reports another", {"config": dict(args)})
    except Exception:
        res.inconclusive.append("harness exception: " + traceback.format_exc()[-1500:])
    finally:
        try:
            if fe2 is not None:
                fe2.stop()
        except Exception:
            pass
        w.stop()
        common.rmtree(base)
    return res


def run_shard(args):
    if args.get("mode") == "concurrent":
        return run_concurrent(args)
    if args.get("mode") == "two-workers":
        return run_two_workers(args)
    res = common.Result()
    rng = random.Random(args["seed"])
    base = common.mkscratch("c17")
    w = W.World(base, fe_kind=args["fe"], prefix=args.get("prefix", "/"), seed=args["seed"])
    w.res = res
    try:
        w.start()
        w.stop()
        w.provision_bare("/user/calendars/barecal/", "calendar", meta="gitconfig")
        w.start()
        cfg = {k: args[k] for k in ("fe", "prefix", "seed", "rounds")}
        run = Runner(w, res, rng, cfg)
        layout = [("/user/calendars/cal0/", "calendar"), ("/user/calendars/cal1/", "calendar"), ("/user/contacts/ab0/", "addressbook"), ("/user/contacts/ab1/", "addressbook")]
        for p, kind in layout:
            w.mkcol(p, kind)
            run.kinds[p] = kind
        run.kinds["/user/calendars/barecal/"] = "calendar"
        layout.append(("/user/calendars/barecal/", "calendar"))
        for p, kind in (("/user/calendars/cal0x/", "calendar"), ("/user/contacts/ab0x/", "addressbook")):
            w.mkcol(p, kind)
            run.kinds[p] = kind
            layout.append((p, kind))
        names = {}
        for p, kind in layout:
            ext = ".ics" if kind == "calendar" else ".vcf"
            names[p] = gen_names(rng, 5, ext) + ["plain%d%s" % (i, ext) for i in range(3)]
            for nm in names[p][:5]:
                run.put(p, nm, kind)
        pairs = {"/user/calendars/cal0/": ("/user/calendars/cal1/", "/user/contacts/ab0/"), "/user/contacts/ab0/": ("/user/contacts/ab1/", "/user/calendars/cal0/"),
                 "/user/calendars/barecal/": ("/user/calendars/cal0/", "/user/contacts/ab0/")}
        for rnd in range(args["rounds"]):
            # mutate the history a little
            for _ in range(3):
                p, kind = rng.choice(layout)
                nm = rng.choice(names[p])
                if nm in run.live.get(p, {}) and rng.random() < 0.4:
                    run.delete(p, nm)
                else:
                    run.put(p, nm, kind)
            for p, kind in layout:
                run.harvest(p)
            for p in pairs:
                kind = run.kinds[p]
                for _ in range(args.get("lists_per_round", 3)):
                    items = run.build_list(p, kind, pairs[p][0], pairs[p][1])
                    if items:
                        run.judge_list(p, kind, items)
                        if res.evaluations == 1:
                            res.sample({"config": cfg, "list": [(h, c, e) for h, c, e, _ in items]})
    except Exception:
        res.inconclusive.append("harness exception: " + traceback.format_exc()[-1500:])
    finally:
        w.stop()
        common.rmtree(base)
    return res


def check(tier, seed, t0):
    th = tier == "thorough"
    shards = []
    combos = [(fe, pre) for fe in ("wsgi", "aio") for pre in ("/", "/dav/", "/a/b/")]
    for rep in range(4 if not th else 8):
        for fe, pre in combos:
            shards.append({"fe": fe, "prefix": pre, "seed": seed * 1000 + len(shards), "rounds": 8 if not th else 60})
    for i in range(4 if not th else 12):
        shards.append({"mode": "concurrent", "backend": ["tree", "bare"][i % 2], "kind": ["calendar", "addressbook"][(i // 2) % 2], "seed": seed * 1000 + 900 + i,
                       "seconds": 6 if not th else 30, "delay_ms": [4, 8][(i // 2) % 2]})
    for i in range(2 if not th else 6):
        shards.append({"mode": "two-workers", "seed": seed * 1000 + 950 + i, "rounds": 60 if not th else 300})
    results, failures = common.run_shards("vf.props.c17", shards, timeout_s=300 if not th else 2400)
    merged = common.merge(results)
    c = merged["counters"]
    k = 1 if not th else 15
    guards = [("href lists", c.get("lists", 0), 1200 * k), ("href classes judged", c.get("hrefs_judged", 0), 6000 * k), ("found answers compared with GET", c.get("found_compared_with_get", 0), 800 * k),
              ("singleton replays", c.get("singleton_replays", 0), 6000 * k), ("answers found", c.get("outcome:found", 0), 800 * k), ("answers not found", c.get("outcome:notfound", 0), 500 * k),
              ("(ETag, data) pairs of multigets concurrent with overwrites", c.get("concurrent_pairs_judged:multiget", 0), 300 * (1 if not th else 6)), ("overwrites during concurrent runs", c.get("concurrent_writes", 0), 100),
              ("multigets sent to the collection URL without trailing slash", c.get("multigets_to_url_without_trailing_slash", 0), 300 * k),
              ("reads by one server process after an overwrite acknowledged by another", c.get("two_worker_reads_after_an_acknowledged_overwrite", 0), 300 * (1 if not th else 8)),
              ("members uploaded with a generic content type (stored verbatim)", c.get("members_uploaded_with_a_generic_content_type", 0), 40 * k)]
    for cl in ("emitted", "encoded", "lower-escapes", "absolute-url", "deleted", "never-existed", "other-collection", "other-kind", "collection-itself", "outside-prefix", "sibling-prefix", "empty", "bad-escape", "dot-segments", "bogus-parent-same-basename", "doubled-slash", "sibling-with-name-prefix"):
        guards.append(("class " + cl, c.get("class:" + cl, 0), 20))
    return common.finish(PROP, tier, seed, "exploration", merged, failures, RULE, t0, guards=guards,
                         assumptions=["XML parsers normalise CRLF to LF: data is compared modulo line ends", "hrefs on another host, dot-segment or doubled-slash spellings and member hrefs with a trailing slash may be answered found or not found (checked for consistency and independence only)", "two hrefs count as the same href iff equivalent under RFC 3986 6.2.2 normalisation (escapes, dot segments, scheme+authority dropped): those may share one answer; doubled / trailing slashes make a distinct href"])


def replay(path):
    import json
    rp = json.load(open(path))
    cfg = rp["witness"]["config"]
    res = run_shard(dict(cfg))
    for v in res.violations:
        print("VIOLATION property=%s replay=%s" % (PROP, path))
        print("  sig=%s :: %s" % (v["sig"], v["msg"][:300]))
    return 1 if res.violations else 0


# (what later rounds of seeded changes added to the workload; part of the evidence's description of the check)
RULE += "; " + 'a phase with two server processes on one data directory: same-size overwrites acknowledged by one, multiget + GET by the other after each'
