"""Which properties are claimed, at what level, decided by what."""
CHECKS = {
    "C01": dict(level="exploration", design="DESIGN.md section 4 C01",
                technique="runtime monitoring: random request histories against the real servers + response-driven reference model audited after every step",
                text="Held on the recorded histories: after every step of thousands of generated request histories (both front ends, route prefixes, tree-git and "
                     "bare-git collections, restarts) and of Store-API histories (vdir, bare-git memory/disk, tree-git) every member read back equal to the last "
                     "acknowledged write, deleted/refused names answered 404 and listings equalled the live set. Unbounded histories cannot be enumerated; a reference-model "
                     "monitor over many short hostile histories is the strongest decision this family offers.",
                note="Trusted: the harness's reference model and iCalendar canonicaliser (vf/icl.py); wsgiref-style environ construction; restart = process kill (CLI) or module reload + store-cache clear (WSGI)."),
}
NOT_APPLICABLE = {}
