"""Which properties are claimed, at what level, decided by what."""
CHECKS = {
    "C01": dict(level="exploration", design="DESIGN.md section 4 C01",
                technique="runtime monitoring: random request histories against the real servers + response-driven reference model audited after every step",
                text="Held on the recorded histories: after every step of thousands of generated request histories (both front ends, route prefixes, tree-git and "
                     "bare-git collections, restarts) and of Store-API histories (vdir, bare-git memory/disk, tree-git) every member read back equal to the last "
                     "acknowledged write, deleted/refused names answered 404 and listings equalled the live set. Unbounded histories cannot be enumerated; a reference-model "
                     "monitor over many short hostile histories is the strongest decision this family offers.",
                note="Trusted: the harness's reference model and iCalendar canonicaliser (vf/icl.py); wsgiref-style environ construction; restart = process kill (CLI) or module reload + store-cache clear (WSGI)."),
    "C02": dict(level="exploration", design="DESIGN.md section 4 C02",
                technique="runtime monitoring: ETag observation table over request histories (9 protocol views per member per audit) + etag<->bytes bijection checker; Store-API histories for vdir/bare-git",
                text="Held on the recorded histories: at every quiescent point all protocol views of a member reported one strong quoted ETag, and over each whole history "
                     "ETag <-> served bytes was a bijection per path (same-byte rewrites, re-serialisations, reverts, restarts, unrelated writes included).",
                note="Trusted: harness HTTP client and multistatus parser; quiescence (the harness is the only client)."),
    "C07": dict(level="exploration", design="DESIGN.md section 4 C07",
                technique="runtime monitoring: snapshot-diff oracle for sync-collection over all (earlier token, now) pairs sampled along histories + foreign-token probes",
                text="Held on the recorded histories: every sync-collection report for the empty token, the previous token and random earlier tokens equalled the diff of the "
                     "harness's own {name: etag} snapshots (changed with current ETag, removed as 404, nothing else, current token returned); never-issued tokens were never "
                     "answered with a success.",
                note="Trusted: snapshots taken by GET/PROPFIND at quiescent points; no DAV:limit."),
    "C08": dict(level="exploration", design="DESIGN.md section 4 C08",
                technique="runtime monitoring: fingerprint<->tag tables over all pairs of audited points of each collection history (hash join), interval classification (reads/refused/other-collection writes)",
                text="Held on the recorded histories: different contents never shared a tag, equal contents+metadata always had the same tag on git collections, and tags never "
                     "moved over intervals that contained only reads, refused requests or writes to other collections; all four tag views agreed.",
                note="Trusted: content fingerprint from GET of every listed member; metadata from the harness's record of acknowledged property changes."),
    "C09": dict(level="exploration", design="DESIGN.md section 4 C09",
                technique="runtime monitoring: git CLI (rev-list, merge-base, ls-tree, status, fsck) as independent oracle after every step of request histories",
                text="Held on the recorded histories: after every request the collection's repository had the previous head as ancestor, one single-parent tree-changing commit "
                     "per successful changing write and none otherwise, HEAD's tree equal to the served members (blob ids recomputed by the harness), a clean `git status` on "
                     "tree stores and a clean `git fsck --strict`.",
                note="Trusted: git 2.39; the harness's classification of a step as changing (served-bytes fingerprint before/after)."),
    "C03": dict(level="exploration", design="DESIGN.md section 4 C03",
                technique="runtime monitoring: enumerated cross product of (resource state x header value class x header x method x front end x backend) judged by an RFC 7232 matcher in the harness + state audit after every case",
                text="Held on the enumerated cross product (about 400 cases per front end and backend, all executed in the thorough tier and on tree-git in the quick tier): every "
                     "conditional PUT/DELETE was executed iff the harness's RFC 7232 evaluation of the header against the resource's observed ETag history allowed it, refusals were "
                     "412 and changed nothing (target and bystander re-read), GET/HEAD with a matching If-None-Match answered 304 without body; same for the etag arguments of the Store API.",
                note="Trusted: harness matcher; ETags observed by GET; weak tags in If-None-Match, repeated header lines and unquoted values are outside the judged set."),
    "C06": dict(level="exploration", design="DESIGN.md section 4 C06",
                technique="runtime monitoring: uid->holder map recomputed from served bodies by an independent parser at every audit of generated histories; every no-uid-conflict answer judged against it",
                text="Held on the recorded histories: no audit ever saw two live calendar resources with one UID, every no-uid-conflict refusal coincided with another live holder of "
                     "that UID, refused writes changed nothing, and UIDs were reusable right after their holder was deleted or changed UID (incl. after delete+recreate of the collection and restarts).",
                note="Trusted: vf/icl.py UID extraction; generated objects carry one UID per resource."),
    "C14": dict(level="exploration", design="DESIGN.md section 4 C14",
                technique="runtime monitoring: generated valid bodies and enumerated invalid classes PUT through both front ends; independent content-line parser + XML well-formedness + ETag/sync-token/commit-count probes around a re-upload of the served bytes",
                text="Held on the generated inputs: every member of the statement's invalid classes was refused without creating a member or moving the collection tag; every accepted "
                     "valid body was served property-for-property equal (own parser) and re-uploading the served bytes changed neither ETag, sync-token nor commit count.",
                note="Trusted: vf/icl.py as definition of 'parseable'; classes outside the statement (broken nesting repaired by the lenient parser) are judged by observable consequences only."),
    "C15": dict(level="exploration", design="DESIGN.md section 4 C15",
                technique="runtime monitoring: reference model of acknowledged property values vs PROPFIND read-back after every operation (set/remove/restart/member write) over a metacharacter value grammar, both metadata back ends, both front ends",
                text="Held on the generated operations except for the recorded known finding (values with inner line feeds on the .xandikos back end): every value whose set was "
                     "reported 200 by PROPPATCH / extended MKCOL / MKCALENDAR read back identically after every later operation and restart; no operation changed another collection's "
                     "properties or any member.",
                note="Trusted: harness XML escaping/parsing; a set is successful iff its propstat is 200; ';' not generated for the git-config back end (as the property says)."),
    "C16": dict(level="exploration", design="DESIGN.md section 4 C16",
                technique="runtime monitoring: href harvester + dereferencer - every href emitted in PROPFIND/REPORT/POST/PROPPATCH/error bodies and href-valued properties is resolved per RFC 3986 and re-requested byte-for-byte; members identified by unique body tokens",
                text="Held on the generated names and layouts: Depth 0 answered exactly the target, Depth 1 the target plus each direct member exactly once, collection hrefs ended in "
                     "'/', and every harvested href, sent as emitted, returned the resource it was emitted for - for names with blanks, %, literal escapes, #, ?, ;, +, :, non-ASCII, under "
                     "/, /dav/, /a/b/ and through both front ends.",
                note="Trusted: urllib.parse.urljoin as RFC 3986 resolver; clients percent-encode reserved octets in member names; report completeness is left to C07/C11/C12/C17."),
    "C17": dict(level="exploration", design="DESIGN.md section 4 C17",
                technique="runtime monitoring: generated href lists (20 href classes) against calendar-/addressbook-multiget at points of a write history; per-class exactly-once matching, GET comparison at the same quiescent point, singleton replay for independence",
                text="Held on the generated lists except for the recorded known finding (names ending in ':.ext' are typed octet-stream by the server): every requested href class was "
                     "answered once, live members of the right kind carried the ETag and body a simultaneous GET returned, deleted / never-existing / wrong-kind / malformed / "
                     "out-of-namespace hrefs never carried data, and each href alone got the same answer as inside its list.",
                note="Trusted: harness multistatus parser; href classes = equality after percent-decoding, removal of scheme/authority and dot-segment normalisation; data compared modulo XML line-end normalisation."),
    "C18": dict(level="exploration", design="DESIGN.md section 4 C18",
                technique="runtime monitoring: discovery walker (follows only server-returned hrefs) over enumerated deployment configurations with real server processes, restarts and a before/after snapshot comparator",
                text="Held on all 216 enumerated deployments (thorough; a covering sample of 24 in the quick tier): from the prefix and from both .well-known redirects the walker reached "
                     "the principal, both home sets and (with defaults or a pre-existing tree) a calendar and an address book of the right types, reached collections the user created "
                     "earlier, and after every restart all collections, member bodies and properties were unchanged.",
                note="Trusted: harness href resolution (urljoin); vf/wsgihost.py as a model of a prefix-mounting WSGI deployment with WellknownRedirector."),
    "C13": dict(level="exploration", design="DESIGN.md section 4 C13",
                technique="runtime monitoring: audit-hook file-system access monitor inside the server (every open/listdir/scandir/mkdir/rename/remove/rmtree/Popen event judged against the data root), strace as second observer (thorough), before/after snapshot of the surroundings and canary tokens, under an adversarial request-target grammar",
                text="Held on the generated requests: none of the tens of thousands of adversarial targets (all methods, both front ends, raw sockets / un-normalised PATH_INFO, hrefs inside "
                     "REPORT bodies) made the server create, modify, delete, list or read anything that resolves outside the data root (static allow-list: interpreter, packages, "
                     "HOME, TMPDIR), the surroundings' snapshot was unchanged and no canary content appeared in a response.",
                note="Trusted: CPython audit events cover the file-system calls the code makes (strace cross-checks this in the thorough tier); stat-only probes are not judged."),
    "C11": dict(level="exploration", design="DESIGN.md section 4 C11 and Appendix A",
                technique="runtime monitoring: differential oracle - an independent RFC 4791 9.7/9.9 evaluator (vf/caloracle.py, self-tested) judges every (query, object) pair of an exhaustive section-9.9 row x boundary grid and of generated filter trees against the real REPORT answers",
                text="Held on the explored grid except for the recorded known finding (text-match is an equality test): for every row of the section 9.9 tables, every DTSTART value type "
                     "and time-ranges placed one second before, on and after every key instant (with CALDAV:timezone variants), and for generated comp/prop/param filter trees, the REPORT "
                     "returned exactly the objects the oracle accepts, with calendar-data equal to the resource.",
                note="Trusted: vf/caloracle.py (written from the RFC, Appendix A) and vf/icl.py; automatic indexing is switched off here (index transparency is C10); server default timezone UTC."),
    "C12": dict(level="exploration", design="DESIGN.md section 4 C12 and Appendix B",
                technique="runtime monitoring: differential oracle - an independent RFC 6352 10.5 evaluator (vf/cardoracle.py, self-tested) judges every (query, card) pair for enumerated match-type x collation x negation x text-relation filters, param-filters, anyof/allof combinations and limits against the real REPORT answers",
                text="Held on the generated filters and cards: the REPORT returned exactly the cards the oracle accepts for every match type, collation, negation, param-filter and "
                     "anyof/allof combination (ASCII and non-ASCII values), never more than nresults responses, address-data equal to the stored card, and never a 5xx.",
                note="Trusted: vf/cardoracle.py and vf/icl.py; only unstructured text properties in text-match cases; unicode case folding modelled by str.casefold()."),
    "C10": dict(level="exploration", design="DESIGN.md section 4 C10",
                technique="runtime monitoring: differential monitor - every REPORT answer of a server with query history (index thresholds 0/1/5/50, interleaved writes) is compared with the naive evaluation of the same filter by a cold store object on the same repository state; a recording wrapper proves that the index path answered",
                text="Held on the recorded query/write sequences except for five recorded known findings (TZID values and periods lose information in the index, several components of one "
                     "object are flattened, param index keys cannot be extracted, top-level non-VCALENDAR filters): for all other filters and contents the answer after any number of "
                     "repetitions, index resets and interleaved writes equalled the naive evaluation on a cold store.",
                note="Trusted: the naive evaluation path of the same code as reference (RFC conformance is C11); wrapper-based attribution of answers to the index path (WSGI shards)."),
    "C04": dict(level="fault_enumeration", design="DESIGN.md section 4 C04",
                technique="runtime fault injection: crash-point enumeration - the real store operation is re-run once per file-system mutation with os._exit immediately before it (audit-hook failpoint), plus torn-file variants for every file open for writing at that instant; each crash state is re-opened and audited (own parser, git fsck/rev-list); SIGKILL of acknowledged-write loops in the thorough tier",
                text="Held on every enumerated crash point: for create / replace / delete / property-set operations on tree-git, bare-git and vdir stores (both metadata back ends, "
                     "0/1/4 prior members) every state left by dying before any of the operation's file-system mutations - and with files that were open for writing cut to zero or "
                     "half - re-opened, all members parsed, the target was old or new, bystanders and earlier writes were intact and git found no missing object; all acknowledged "
                     "writes survived hundreds of SIGKILLs at random instants.",
                note="Trusted: process-death model (kernel-held data survives, user-space buffers do not; no power-loss reordering); audit events enumerate the mutations (pure-Python stores)."),
    "C05": dict(level="exploration", design="DESIGN.md section 4 C05",
                technique="runtime monitoring under controlled scheduling: CHESS-style deterministic thread scheduler (audit-event and line-event yield points) enumerates all single (thorough: double) pre-emption interleavings of pairs of real store operations; each run is judged against the sequential executions of the same operations; thorough adds an HTTP stress run with delay injection",
                text="Decided on every enumerated interleaving: fourteen recorded known findings describe where the property does NOT hold (check-before-lock on tree-git; unlocked "
                     "read-modify-write and unmapped dulwich exceptions on bare-git; dulwich's lock-release race, which needs two pre-emptions). Everything else held on all schedules: "
                     "with one pre-emption tree-git never lost an update to a different resource, LockedError was the only refusal besides the documented ones, index and HEAD "
                     "agreed, no single-pre-emption schedule corrupted a repository or made history non-linear, and every other result/final-state pair equalled a sequential execution.",
                note="Trusted: pre-emption only at the instrumented yield points; at most two pre-emptions; sequential runs of the real code as specification."),
}
NOT_APPLICABLE = {}
