"""Which properties are claimed, at what level, decided by what."""
CHECKS = {}
NOT_APPLICABLE = {}
