"""Deterministic thread scheduler (CHESS style) for the real store code.

Each operation runs in its own thread, but only the thread holding the turn
runs.  Yield points are raised from (i) a process-wide audit hook, for
file-system events on *mutable shared* paths below the store directory, and
(ii) line events inside a small set of store functions (only when the threads
share one store object, for the in-memory uid maps).  A schedule is the set of
global yield indices at which the running thread is pre-empted.
"""
import os
import sys
import threading
import time

_CURRENT = None          # the active Scheduler (one per process at a time)
_HOOKED = False

RELEVANT_EVENTS = {"open", "os.rename", "os.remove", "os.mkdir", "os.rmdir", "os.listdir", "os.scandir", "os.link", "os.truncate", "os.chmod", "os.utime"}


def relevant_path(rel):
    """mutable shared state of a git store / vdir: refs, HEAD, index, lock files,
    working-tree files, metadata.  Loose objects and packs are immutable and
    content-addressed: adding them is invisible to the other operation."""
    rel = rel.replace("\\", "/")
    for pre in ("objects/", ".git/objects/"):
        if rel.startswith(pre):
            return False
    for pre in ("logs/", ".git/logs/", "hooks/", ".git/hooks/", "info/", ".git/info/"):
        if rel.startswith(pre):
            return False
    return True


def _audit(event, args):
    s = _CURRENT
    if s is None or event not in RELEVANT_EVENTS:
        return
    me = s.ids.get(threading.get_ident())
    if me is None or s.in_hook.get(me):
        return
    a0 = args[0] if args else None
    if isinstance(a0, bytes):
        a0 = a0.decode("utf-8", "surrogateescape")
    if not isinstance(a0, str):
        return
    p = os.path.abspath(a0)
    if not p.startswith(s.root + os.sep) and p != s.root:
        return
    rel = os.path.relpath(p, s.root)
    if not relevant_path(rel):
        return
    s.in_hook[me] = True
    try:
        s.yield_point(me, "%s:%s" % (event, rel))
    finally:
        s.in_hook[me] = False


def ensure_hook():
    global _HOOKED
    if not _HOOKED:
        sys.addaudithook(_audit)
        _HOOKED = True


class Deadlock(Exception):
    pass


class Scheduler:
    def __init__(self, root, preempt=(), first=0, line_funcs=None, watchdog=8.0):
        self.root = os.path.realpath(root)
        self.preempt = dict(preempt) if isinstance(preempt, dict) else {i: None for i in preempt}
        self.turn = first
        self.cv = threading.Condition()
        self.ids = {}
        self.in_hook = {}
        self.counter = 0
        self.trace = []
        self.done = set()
        self.n = 0
        self.line_funcs = line_funcs   # set of code objects or None
        self.watchdog = watchdog
        self.stuck = False
        self.errors = {}

    def yield_point(self, me, tag):
        with self.cv:
            idx = self.counter
            self.counter += 1
            self.trace.append((me, tag))
            if idx in self.preempt:
                others = [t for t in range(self.n) if t != me and t not in self.done]
                if others:
                    tgt = self.preempt[idx]
                    if tgt is None or tgt not in others:
                        tgt = others[0]
                    self.turn = tgt
                    self.cv.notify_all()
                    self._wait_turn(me)

    def _wait_turn(self, me):
        t0 = time.monotonic()
        while self.turn != me:
            if not self.cv.wait(timeout=0.5):
                if time.monotonic() - t0 > self.watchdog:
                    self.stuck = True
                    raise Deadlock()

    def _tracer(self, me):
        funcs = self.line_funcs

        def local(frame, event, arg):
            if event == "line":
                if not self.in_hook.get(me):
                    self.in_hook[me] = True
                    try:
                        self.yield_point(me, "line:%s:%d" % (frame.f_code.co_name, frame.f_lineno))
                    finally:
                        self.in_hook[me] = False
            return local

        def glob(frame, event, arg):
            if event == "call" and frame.f_code in funcs:
                return local
            return None
        return glob

    def run(self, ops):
        """ops: list of callables; returns list of results (value or exception)"""
        global _CURRENT
        ensure_hook()
        self.n = len(ops)
        results = [None] * self.n
        threads = []

        def body(i, fn):
            self.ids[threading.get_ident()] = i
            try:
                with self.cv:
                    self._wait_turn(i)
                if self.line_funcs:
                    sys.settrace(self._tracer(i))
                try:
                    results[i] = ("value", fn())
                except Deadlock:
                    results[i] = ("deadlock", None)
                except BaseException as e:  # noqa
                    results[i] = ("exc", e)
            except Deadlock:
                results[i] = ("deadlock", None)
            finally:
                sys.settrace(None)
                with self.cv:
                    self.done.add(i)
                    rest = [t for t in range(self.n) if t not in self.done]
                    if rest and (self.turn == i or self.turn in self.done):
                        self.turn = rest[0]
                    self.cv.notify_all()
        _CURRENT = self
        try:
            for i, fn in enumerate(ops):
                t = threading.Thread(target=body, args=(i, fn), daemon=True)
                threads.append(t)
                t.start()
            for t in threads:
                t.join(timeout=self.watchdog * 3)
                if t.is_alive():
                    self.stuck = True
        finally:
            _CURRENT = None
        return results
