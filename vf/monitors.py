"""Monitors over the history engine: C02 (ETag views), C07 (sync-collection),
C08 (collection tags), C09 (git repository as history)."""
import hashlib
import os
import random
import re
import subprocess

from . import common, davxml as X, histrun, icl, world as W


def wh(w, col):
    return "%s/%s" % (w.fe_kind if w.fe_kind != "wsgihost" else "wsgi", col.backend)


def parse_report_members(w, colpath, body):
    """multistatus -> ({name: MSResponse}, token, problems)"""
    rs, token = X.parse_multistatus(body)
    out = {}
    problems = []
    for resp in rs:
        nm = w.rel_name(resp.href or "", colpath)
        if nm is None:
            problems.append("href %r outside collection" % resp.href)
            continue
        if nm in out:
            problems.append("member %r answered twice" % nm)
        out[nm] = resp
    return out, token, problems


# ----------------------------------------------------------------------------
# C02


class C02Monitor(histrun.Monitor):
    VIEWS = ("put", "get", "head", "propfind", "multiget", "query", "sync-empty", "sync-incr")

    def __init__(self, res, cfg):
        super().__init__(res, cfg)
        self.pending_put = {}   # (col, name) -> etag from PUT/POST response
        self.table = {}         # (col incarnation, name) -> {etag: sha}
        self.lasttok = {}

    def on_step(self, w, s, r):
        if r is None or not W.World.success(s.eff):
            return
        if s.method == "PUT":
            et = r.header("ETag")
            # which member?  (target = url(col, name))
            for p, col in w.cols.items():
                pre = w.url(p)
                if s.target.startswith(pre) and "/" not in s.target[len(pre):]:
                    import urllib.parse
                    nm = urllib.parse.unquote(s.target[len(pre):])
                    if et is None:
                        self.viol(w, f"{wh(w, col)}/view/put-without-etag", f"successful PUT {s.target} carries no ETag header")
                    else:
                        self.pending_put[(p, nm)] = et
                        self.res.count("view:put")

    def on_audit(self, w, obs, full):
        res = self.res
        for p, o in obs.items():
            col = w.cols.get(p)
            if col is None or not o.get("listed") and not col.members:
                continue
            if col.path.rstrip("/").endswith(("calendars", "contacts")):
                continue
            where = wh(w, col)
            views = {}  # name -> {view: etag}
            for nm, mo in o["members"].items():
                if mo["status"] != 200:
                    continue
                v = views.setdefault(nm, {})
                v["get"] = mo["etag_get"]
                li = o.get("listed", {}).get(nm)
                if li is not None:
                    v["propfind"] = li["etag_propfind"]
                pe = self.pending_put.pop((p, nm), None)
                if pe is not None:
                    v["put"] = pe
                st, et, body, r = w.fetch(p, nm, method="HEAD")
                if st == 200:
                    v["head"] = et
                    if body:
                        self.viol(w, f"{where}/head-with-body", f"HEAD {p}{nm!r} carried {len(body)} body bytes")
            names = sorted(views)
            if names and col.kind in ("calendar", "addressbook"):
                hrefs = [w.url(p, n) for n in names]
                s, r = w.report(p, X.multiget(col.kind, hrefs, data=False), record=False)
                if r.status == 207:
                    try:
                        ms, _, _ = parse_report_members(w, p, r.body)
                        for n, resp in ms.items():
                            if n in views and resp.prop_text(X.P_ETAG) is not None:
                                views[n]["multiget"] = resp.prop_text(X.P_ETAG)
                    except X.MalformedXML:
                        pass
                q = X.calendar_query(X.CAL_MATCH_ALL, data=False) if col.kind == "calendar" else X.addressbook_query(X.CARD_MATCH_ALL, data=False)
                s, r = w.report(p, q, record=False)
                if r.status == 207:
                    try:
                        ms, _, _ = parse_report_members(w, p, r.body)
                        for n, resp in ms.items():
                            if n in views and resp.prop_text(X.P_ETAG) is not None:
                                views[n]["query"] = resp.prop_text(X.P_ETAG)
                    except X.MalformedXML:
                        pass
            if names:
                s, r = w.report(p, X.sync_collection(None), record=False)
                tok = None
                if r.status == 207:
                    try:
                        ms, tok, _ = parse_report_members(w, p, r.body)
                        for n, resp in ms.items():
                            if n in views and resp.prop_text(X.P_ETAG) is not None:
                                views[n]["sync-empty"] = resp.prop_text(X.P_ETAG)
                    except X.MalformedXML:
                        pass
                old = self.lasttok.get(p)
                if old and tok and old != tok:
                    s, r = w.report(p, X.sync_collection(old), record=False)
                    if r.status == 207:
                        try:
                            ms, _, _ = parse_report_members(w, p, r.body)
                            for n, resp in ms.items():
                                if n in views and resp.prop_text(X.P_ETAG) is not None:
                                    views[n]["sync-incr"] = resp.prop_text(X.P_ETAG)
                        except X.MalformedXML:
                            pass
                if tok:
                    self.lasttok[p] = tok
            for nm, v in views.items():
                for k in v:
                    res.count("view:" + k)
                vals = {k: x for k, x in v.items() if x is not None}
                res.count("agreement_checks")
                if len(set(vals.values())) > 1:
                    ref = vals.get("get")
                    bad = sorted(k for k, x in vals.items() if x != ref)
                    self.viol(w, f"{where}/views-disagree/{'+'.join(bad)}", f"{p}{nm!r}: views report different ETags at one quiescent point: {vals!r}")
                for k, x in vals.items():
                    if not (len(x) >= 2 and x[0] == '"' and x[-1] == '"') or x.startswith("W/"):
                        self.viol(w, f"{where}/not-a-strong-quoted-etag/{k}", f"{p}{nm!r}: view {k} gives {x!r}")
                et = vals.get("get")
                sh = o["members"][nm]["sha"]
                if et is None:
                    self.viol(w, f"{where}/view/get-without-etag", f"GET {p}{nm!r} has no ETag")
                    continue
                t = self.table.setdefault((p, nm), {})
                for e2, s2 in t.items():
                    if e2 == et and s2 != sh:
                        self.viol(w, f"{where}/same-etag-different-bytes", f"{p}{nm!r}: ETag {et} observed with two different bodies")
                    if e2 != et and s2 == sh:
                        self.viol(w, f"{where}/different-etag-same-bytes", f"{p}{nm!r}: identical served bytes observed with ETags {e2} and {et}")
                if et in t:
                    res.count("etag_reobserved")
                t[et] = sh
                res.seen(where, nm, et)


# ----------------------------------------------------------------------------
# C08


class C08Monitor(histrun.Monitor):
    TAGS = (X.P_CTAG_CS, X.P_CTAG_DAV, X.P_SYNCTOKEN, X.P_ETAG)

    def __init__(self, res, cfg):
        super().__init__(res, cfg)
        self.prev = {}      # col -> (fp, meta, tags, stepn)
        self.by_tag = {}    # (col, view) -> {tag: fp}
        self.by_fp = {}     # (col, view) -> {(fp, meta): tag}
        self.inc = {}       # col path -> incarnation counter
        self.steps_since = {}
        self.last = None

    def on_step(self, w, s, r):
        self.last = s
        for p in self.prev:
            d = self.steps_since.setdefault(p, {"reads": 0, "refused": 0, "other": 0, "writes_here": 0})
            if s.op == "restart":
                d["other"] += 1
            elif s.method in ("GET", "HEAD", "PROPFIND", "REPORT", "OPTIONS"):
                d["reads"] += 1
            elif not W.World.success(s.eff):
                d["refused"] += 1
            else:
                if s.target.startswith(w.url(p)):
                    d["writes_here"] += 1
                else:
                    d["other"] += 1

    def on_audit(self, w, obs, full):
        res = self.res
        for p, o in obs.items():
            col = w.cols.get(p)
            if col is None or o["listing_status"] != 207:
                continue
            if col.path.rstrip("/").endswith(("calendars", "contacts")):
                continue
            where = wh(w, col)
            if any(mo["status"] != 200 for nm, mo in o["members"].items() if nm in o.get("listed", {})):
                continue
            fp = common.h(sorted((nm, mo["sha"]) for nm, mo in o["members"].items() if mo["status"] == 200))
            meta = common.h(col.kind, sorted(col.props.items()), col.inc, bool(getattr(col, "patched", False)))
            tags = {k: o["tags"].get(k) for k in self.TAGS}
            res.count("tag_observations")
            for k, t in tags.items():
                if t is None:
                    self.viol(w, f"{where}/tag-missing/{X.q(k)}", f"{p}: PROPFIND does not return {k}")
                    continue
                key = (p, col.inc, k)
                bt = self.by_tag.setdefault(key, {})
                if t in bt and bt[t] != fp:
                    self.viol(w, f"{where}/same-tag-different-contents/{X.q(k)}", f"{p}: {k}={t!r} observed for two different contents")
                bt[t] = fp
                bf = self.by_fp.setdefault(key, {})
                if (fp, meta) in bf:
                    res.count("returns_to_earlier_state")
                    if bf[(fp, meta)] != t:
                        self.viol(w, f"{where}/equal-contents-different-tag/{X.q(k)}", f"{p}: equal contents and metadata observed with {k}={bf[(fp, meta)]!r} earlier and {t!r} now")
                bf[(fp, meta)] = t
            vals = set(x.strip('"') for x in tags.values() if x is not None)
            if len(vals) > 1:
                self.viol(w, f"{where}/tag-views-disagree", f"{p}: tag views disagree: {tags!r}")
            pv = self.prev.get(p)
            d = self.steps_since.get(p, {})
            if pv is not None and pv[3] == col.inc:
                if pv[0] == fp and pv[1] == meta:
                    if d.get("writes_here", 0) == 0:
                        res.count("unchanged_intervals")
                        res.count("unchanged_interval_reads", d.get("reads", 0))
                        res.count("unchanged_interval_refused", d.get("refused", 0))
                        res.count("unchanged_interval_other_writes", d.get("other", 0))
                        if pv[2] != tags:
                            kinds = [k for k in ("reads", "refused", "other") if d.get(k)]
                            self.viol(w, f"{where}/tag-changed-without-change/{'+'.join(kinds) or 'nothing'}", f"{p}: tags changed from {pv[2]!r} to {tags!r} although only {d!r} happened in between")
                else:
                    res.count("changed_intervals")
                    if pv[0] != fp:
                        for k in self.TAGS:
                            if pv[2].get(k) is not None and pv[2].get(k) == tags.get(k):
                                self.viol(w, f"{where}/contents-changed-tag-unchanged/{X.q(k)}", f"{p}: contents changed but {k} stayed {tags.get(k)!r}")
            self.prev[p] = (fp, meta, tags, col.inc)
            self.steps_since[p] = {"reads": 0, "refused": 0, "other": 0, "writes_here": 0}
            res.seen(where, p, fp, meta)


# ----------------------------------------------------------------------------
# C07


class C07Monitor(histrun.Monitor):
    def __init__(self, res, cfg):
        super().__init__(res, cfg)
        self.snaps = {}   # (col path, col.inc) -> list of (token, {name: etag})
        self.rng = random.Random(cfg["seed"] ^ 0xC07)
        self.foreign_pool = []

    def on_audit(self, w, obs, full):
        res = self.res
        for p, o in obs.items():
            col = w.cols.get(p)
            if col is None or o["listing_status"] != 207:
                continue
            if col.path.rstrip("/").endswith(("calendars", "contacts")):
                continue
            where = wh(w, col)
            cur = {nm: mo["etag_get"] for nm, mo in o["members"].items() if mo["status"] == 200}
            tok = o["tags"].get(X.P_SYNCTOKEN)
            if tok is None:
                self.viol(w, f"{where}/no-sync-token", f"{p}: PROPFIND returns no sync-token")
                continue
            key = (p, col.inc)
            hist = self.snaps.setdefault(key, [])
            # blob / commit ids etc. become foreign-token material for other collections
            for e in cur.values():
                if e:
                    self.foreign_pool.append(("blob-id", e.strip('"')))
            del self.foreign_pool[:-50]
            # 0. the token the collection advertises right now (PROPFIND sync-token): a report from it is the empty change set.
            #    (first, before the empty-token report below gives the server a chance to store anything)
            self.check_report(w, p, col, tok, cur, cur, tok, where, "current-token")
            # 1. empty token: full membership
            self.check_report(w, p, col, None, {}, cur, tok, where, "empty-token")
            # 2. a few earlier tokens
            if hist:
                picks = [hist[-1]] + self.rng.sample(hist, min(2, len(hist)))
                for (otok, ostate) in picks:
                    self.check_report(w, p, col, otok, ostate, cur, tok, where, "earlier-token")
            # 3. foreign tokens
            if self.rng.random() < 0.5:
                self.probe_foreign(w, p, col, key, where)
            if not hist or hist[-1][0] != tok or hist[-1][1] != cur:
                hist.append((tok, dict(cur)))
                del hist[:-40]

    def issued(self, key):
        return {t for t, _ in self.snaps.get(key, [])}

    def probe_foreign(self, w, p, col, key, where):
        rng = self.rng
        kinds = ["random-hex", "truncated", "uppercase", "non-hex", "non-ascii", "blob-id", "other-collection", "commit-id", "blank", "url-like"]
        kind = rng.choice(kinds)
        mine = sorted(self.issued(key))
        tok = None
        if kind == "random-hex":
            tok = "%040x" % rng.getrandbits(160)
        elif kind == "truncated" and mine:
            tok = rng.choice(mine)[:rng.choice([7, 20, 39])]
        elif kind == "uppercase" and mine:
            tok = rng.choice(mine).upper()
            if tok in mine:
                tok = None
        elif kind == "non-hex":
            tok = rng.choice(["zzzz", "not-a-token", "g" * 40, "../../HEAD", "HEAD", "refs/heads/master"])
        elif kind == "non-ascii":
            tok = rng.choice(["tökén", "日本", "é" * 40])
        elif kind == "blob-id" and self.foreign_pool:
            tok = rng.choice(self.foreign_pool)[1]
        elif kind == "other-collection":
            others = [t for k2, hs in self.snaps.items() if k2 != key for t, st in hs if st]
            tok = rng.choice(others) if others else None
        elif kind == "commit-id" and col.backend in ("tree", "bare"):
            try:
                out = subprocess.run(["git", "-C", w.fs_path(p), "rev-parse", "HEAD"], capture_output=True, text=True, timeout=20, env=w._git_env())
                tok = out.stdout.strip() or None
            except Exception:
                tok = None
        elif kind == "blank":
            tok = " "
        elif kind == "url-like":
            tok = "http://example.com/ns/sync/1234"
        if tok is None or tok in mine:
            return
        s, r = w.report(p, X.sync_collection(tok), record=False)
        self.res.count("foreign_probes")
        self.res.count("foreign:" + kind)
        eff = s.eff
        if W.World.success(eff):
            self.viol(w, f"{where}/foreign-token-accepted/{kind}", f"{p}: sync-collection with never-issued token {tok!r} ({kind}) answered {s.status}/{eff} instead of an error")
        elif eff >= 500 or eff == 0:
            # an unhandled exception is still "an error, never a successful but
            # wrong change list"; recorded as an observation, not judged
            self.res.count("foreign_answered_5xx")
            self.res.count("foreign_5xx:" + kind)
        else:
            self.res.count("foreign_answered_4xx")

    def check_report(self, w, p, col, otok, ostate, cur, curtok, where, cls):
        res = self.res
        s, r = w.report(p, X.sync_collection(otok), record=False)
        res.count("sync_reports")
        res.count("sync_reports:" + cls)
        if r.status != 207 or not W.World.success(s.eff):
            self.viol(w, f"{where}/{cls}/report-refused", f"{p}: sync-collection with token {otok!r} issued earlier by this collection answered {s.status}/{s.eff}")
            return
        try:
            ms, newtok, problems = parse_report_members(w, p, r.body)
        except X.MalformedXML as e:
            self.viol(w, f"{where}/{cls}/ill-formed", f"{p}: sync report is not well-formed XML: {e}")
            return
        for pr in problems:
            self.viol(w, f"{where}/{cls}/malformed-response", f"{p}: {pr}")
        if newtok != curtok:
            self.viol(w, f"{where}/{cls}/wrong-new-token", f"{p}: report returns token {newtok!r}, collection's current token is {curtok!r}")
        changed = {n for n in cur if ostate.get(n) != cur[n]}
        removed = {n for n in ostate if n not in cur}
        if changed or removed:
            res.count("sync_nonempty")
        if removed:
            res.count("sync_with_removals")
        replica = dict(ostate)
        for n, resp in ms.items():
            if n == "":
                continue
            st = resp.status
            et = resp.prop_text(X.P_ETAG)
            if st == 404:
                if n in cur:
                    self.viol(w, f"{where}/{cls}/live-member-reported-removed", f"{p}: report says 404 for live member {n!r}")
                replica.pop(n, None)
                if n not in ostate:
                    self.viol(w, f"{where}/{cls}/removal-of-unknown-member", f"{p}: report says 404 for {n!r} which was not a member at the token's state")
            else:
                if n not in cur:
                    self.viol(w, f"{where}/{cls}/absent-member-reported", f"{p}: report lists {n!r} which is not a member now")
                    continue
                if et is None:
                    # changed entries must carry the (requested) getetag
                    self.viol(w, f"{where}/{cls}/changed-member-without-etag", f"{p}: report lists {n!r} without getetag (status {st}, propstat {resp.prop_status(X.P_ETAG)})")
                    continue
                if et != cur[n]:
                    self.viol(w, f"{where}/{cls}/stale-etag", f"{p}: report gives {n!r} etag {et}, current is {cur[n]}")
                if n not in changed:
                    self.viol(w, f"{where}/{cls}/unchanged-member-reported", f"{p}: report lists {n!r} although it is unchanged since the token ({ostate.get(n)})")
                replica[n] = et
        for n in changed:
            if n not in ms:
                self.viol(w, f"{where}/{cls}/changed-member-missing", f"{p}: member {n!r} changed since token ({ostate.get(n)} -> {cur[n]}) but is not in the report")
        for n in removed:
            if n not in ms:
                self.viol(w, f"{where}/{cls}/removed-member-missing", f"{p}: member {n!r} removed since token but not reported 404")
        if replica != cur:
            self.viol(w, f"{where}/{cls}/replica-diverges", f"{p}: applying the report to the old state gives {sorted(replica.items())!r}, current is {sorted(cur.items())!r}")
        res.seen(where, cls, len(changed), len(removed), bool(ostate))


# ----------------------------------------------------------------------------
# C09


def git_blob_id(data):
    return hashlib.sha1(b"blob %d\0" % len(data) + data).hexdigest()


class C09Monitor(histrun.Monitor):
    def __init__(self, res, cfg):
        super().__init__(res, cfg)
        self.heads = {}    # (path, col.inc) -> head commit id or None
        self.allheads = {}  # key -> list of all heads seen
        self.last = None
        self.pending = []  # steps since last audit
        self.nfsck = 0

    def git(self, w, p, *args, ok=(0,)):
        out = subprocess.run(["git", "-C", w.fs_path(p)] + list(args), capture_output=True, timeout=60, env=w._git_env())
        self.res.count("git_invocations")
        return out.returncode, out.stdout.decode("utf-8", "replace"), out.stderr.decode("utf-8", "replace")

    def on_step(self, w, s, r):
        self.pending.append(s)

    def on_audit(self, w, obs, full):
        res = self.res
        steps, self.pending = self.pending, []
        for p, o in obs.items():
            col = w.cols.get(p)
            if col is None or o["listing_status"] != 207:
                continue
            where = wh(w, col)
            key = (p, col.inc)
            fsp = w.fs_path(p)
            if not os.path.isdir(fsp):
                self.viol(w, f"{where}/repo-missing", f"{p}: no directory {fsp}")
                continue
            rc, head, err = self.git(w, p, "rev-parse", "-q", "--verify", "HEAD")
            head = head.strip() if rc == 0 else None
            prev = self.heads.get(key, "unset")
            # which steps addressed this collection since its last audit?
            pre = w.url(p)
            # requests addressing this collection or one of its direct members
            # (not members of nested collections)
            mine = [s for s in steps if s.target.startswith(pre) and "/" not in s.target[len(pre):].rstrip("/") and not (s.target[len(pre):].endswith("/"))]
            member_writes = [s for s in mine if s.method in ("PUT", "DELETE", "POST") and s.target != pre.rstrip("/") and (s.method == "POST" or s.target[len(pre):] != "")]
            succ = [s for s in member_writes if W.World.success(s.eff)]
            prop_steps = [s for s in mine if s.method in ("PROPPATCH", "MKCOL", "MKCALENDAR")]
            res.count("repo_audits")
            if head is not None:
                # tree == served members
                rc, ls, err = self.git(w, p, "ls-tree", "-z", "HEAD")
                tree = {}
                for ent in ls.split("\0"):
                    if not ent:
                        continue
                    meta_, name = ent.split("\t", 1)
                    mode, typ, oid = meta_.split(" ")
                    tree[name] = (mode, typ, oid)
                tree.pop(".xandikos", None)
                expect = {nm: git_blob_id(mo["body"]) for nm, mo in o["members"].items() if mo["status"] == 200}
                got = {n: v[2] for n, v in tree.items() if v[1] == "blob"}
                if got != expect:
                    onlyg = sorted(set(got) - set(expect))
                    onlye = sorted(set(expect) - set(got))
                    diff = sorted(n for n in set(got) & set(expect) if got[n] != expect[n])
                    self.viol(w, f"{where}/head-tree-differs-from-served/{'extra' if onlyg else ''}{'missing' if onlye else ''}{'blob' if diff else ''}",
                              f"{p}: git ls-tree HEAD != served members: only in tree {onlyg!r}, only served {onlye!r}, different blob {diff!r}")
                res.count("tree_comparisons")
            elif o["members"] and any(mo["status"] == 200 for mo in o["members"].values()):
                self.viol(w, f"{where}/members-without-head", f"{p}: members are served but the repository has no HEAD commit")
            if prev != "unset":
                # history is append-only
                if prev is not None:
                    if head is None:
                        self.viol(w, f"{where}/history-dropped", f"{p}: HEAD {prev} disappeared")
                        continue
                    rc, _, _ = self.git(w, p, "merge-base", "--is-ancestor", prev, head)
                    if rc != 0:
                        self.viol(w, f"{where}/history-rewritten", f"{p}: previous head {prev} is not an ancestor of {head}")
                        self.heads[key] = head
                        continue
                rng_ = f"{prev}..{head}" if prev is not None else (head or "")
                new = []
                if head is not None and head != prev:
                    rc, out, _ = self.git(w, p, "rev-list", "--parents", rng_)
                    new = [ln.split() for ln in out.strip().splitlines() if ln.strip()]
                for ent in new:
                    if len(ent) > 2:
                        self.viol(w, f"{where}/merge-commit", f"{p}: commit {ent[0]} has {len(ent) - 1} parents")
                    if len(ent) == 1 and prev is not None:
                        self.viol(w, f"{where}/parentless-commit", f"{p}: new commit {ent[0]} has no parent")
                # every new commit alters the tree
                for ent in new:
                    c = ent[0]
                    rc, t1, _ = self.git(w, p, "rev-parse", c + "^{tree}")
                    if len(ent) >= 2:
                        rc, t0, _ = self.git(w, p, "rev-parse", ent[1] + "^{tree}")
                        if t0.strip() == t1.strip():
                            self.viol(w, f"{where}/empty-commit", f"{p}: commit {c} has the same tree as its parent")
                # count rule
                changed_fp = self.fp_changed(key, o)
                if len(mine) == len(member_writes) and len(member_writes) == 1:
                    s = member_writes[0]
                    res.count("single_write_intervals")
                    if W.World.success(s.eff) and changed_fp:
                        res.count("changing_writes")
                        if len(new) != 1:
                            self.viol(w, f"{where}/commit-count/changing-write-{len(new)}-commits", f"{p}: one successful changing {s.method} ({s.op}) added {len(new)} commits")
                    else:
                        res.count("nonchanging_requests")
                        if len(new) != 0:
                            kind = "refused" if not W.World.success(s.eff) else "noop-write"
                            self.viol(w, f"{where}/commit-count/{kind}-added-commit", f"{p}: {s.method} ({s.op}, effective {s.eff}, contents unchanged) added {len(new)} commits")
                elif not mine:
                    res.count("untouched_intervals")
                    if new:
                        self.viol(w, f"{where}/commit-count/untouched-collection-got-commit", f"{p}: {len(new)} new commits although no request addressed the collection; steps: {[s.op for s in steps]!r}")
                elif len(mine) == 1 and mine[0].op == "proppatch_same_value" and W.World.success(mine[0].eff):
                    res.count("noop_property_sets")
                    if new:
                        self.viol(w, f"{where}/commit-count/noop-property-set-added-commit", f"{p}: a PROPPATCH that set a property to the value it already had added {len(new)} commit(s)")
                elif prop_steps and not member_writes:
                    nchanges = 0
                    for s in prop_steps:
                        nchanges += 1 + len((s.note or {}).get("propstat", {})) if isinstance(s.note, dict) else 1
                    if len(new) > nchanges + 2:
                        self.viol(w, f"{where}/commit-count/property-change-too-many-commits", f"{p}: {len(new)} commits for {nchanges} property changes")
            self.heads[key] = head
            self.remember_fp(key, o)
            # tree stores: working tree, index, HEAD agree
            if col.backend == "tree" and head is not None:
                rc, st, err = self.git(w, p, "status", "--porcelain", "-z")
                bad = []
                for ent in st.split("\0"):
                    if not ent:
                        continue
                    code, name = ent[:2], ent[3:]
                    if code == "??" and name.endswith("/") and os.path.isdir(os.path.join(fsp, name, ".git")):
                        continue
                    if code == "??" and name.endswith("/") and all(os.path.isdir(os.path.join(fsp, name, d, ".git")) or True for d in []):
                        # untracked directory: accept only if everything in it is a nested collection
                        if self.only_nested_repos(os.path.join(fsp, name)):
                            continue
                    bad.append(ent)
                res.count("status_checks")
                if bad:
                    self.viol(w, f"{where}/git-status-dirty/{bad[0][:2].strip() or 'x'}", f"{p}: git status --porcelain reports {bad!r}")
            self.nfsck += 1
            if head is not None and (full or self.nfsck % 4 == 0 or any(st.op.startswith(("ctl:", "put_reserved")) for st in steps)):
                rc, out, err = self.git(w, p, "fsck", "--strict", "--no-dangling")
                res.count("fsck_runs")
                if rc != 0:
                    self.viol(w, f"{where}/fsck-error", f"{p}: git fsck --strict exit {rc}: {(out + err)[:400]}")
            res.seen(where, head)

    def only_nested_repos(self, d):
        for root, dirs, files in os.walk(d):
            if ".git" in dirs:
                dirs[:] = []
                continue
            if files:
                return False
        return True

    def remember_fp(self, key, o):
        if not hasattr(self, "fps"):
            self.fps = {}
        self.fps[key] = common.h(sorted((nm, mo["sha"]) for nm, mo in o["members"].items() if mo["status"] == 200))

    def fp_changed(self, key, o):
        fp = common.h(sorted((nm, mo["sha"]) for nm, mo in o["members"].items() if mo["status"] == 200))
        return getattr(self, "fps", {}).get(key) != fp


# ----------------------------------------------------------------------------
# C06

NO_UID_CONFLICT = "{urn:ietf:params:xml:ns:caldav}no-uid-conflict"


class C06Monitor(histrun.Monitor):
    def __init__(self, res, cfg):
        super().__init__(res, cfg)
        self.holders = {}    # (path, col.inc) -> {uid: name}  from served bodies at last audit
        self.released = {}   # key -> {uid: reason}
        self.fp = {}
        self.pending_refusal = None
        self.everheld = {}   # key -> set of uids ever held

    def body_uid(self, body):
        try:
            return icl.calendar_uid(icl.parse_calendar(body))
        except icl.ICLError:
            return None

    def on_step(self, w, s, r):
        if r is None or s.method not in ("PUT", "POST"):
            return
        lp = getattr(w, "last_write", None)
        if lp is None or lp["step"] is not s:
            return
        col = w.cols.get(lp["col"])
        if col is None or col.kind != "calendar":
            return
        key = (col.path, col.inc)
        where = wh(w, col)
        uid = self.body_uid(lp["body"])
        hold = self.holders.get(key, {})
        conflict = bool(s.err and NO_UID_CONFLICT in s.err)
        other = hold.get(uid) if uid is not None else None
        real_conflict = other is not None and other != lp["name"]
        if conflict:
            self.res.count("conflicts_answered")
            if real_conflict:
                self.res.count("genuine_conflicts_refused")
            else:
                why = self.released.get(key, {}).get(uid)
                ci = [u for u in hold if uid is not None and u.lower() == uid.lower() and u != uid]
                earlier = [k for k in self.everheld if k[0] == col.path and k[1] != col.inc and uid in self.everheld[k]]
                if why:
                    cls = why
                elif earlier:
                    cls = "held-in-earlier-incarnation-of-collection"
                elif ci:
                    cls = "uid-differs-only-in-case"
                elif other == lp["name"]:
                    cls = "own-uid"
                else:
                    cls = "uid-never-held"
                self.viol(w, f"{where}/spurious-conflict/{cls}", f"{s.method} {s.target} (UID {uid!r}) refused with no-uid-conflict although no other live member of {col.path} holds that UID "
                          f"(holders: {hold!r}; history of that UID: {why})")
            self.pending_refusal = (key, s)
        elif W.World.success(s.eff):
            if real_conflict:
                self.res.count("conflicting_write_accepted")
                # confirmed (or not) by the duplicate check at the audit
            if uid is not None:
                self.res.count("uid_writes_accepted")

    def on_audit(self, w, obs, full):
        for p, o in obs.items():
            col = w.cols.get(p)
            if col is None or col.kind != "calendar" or o["listing_status"] != 207:
                continue
            key = (p, col.inc)
            where = wh(w, col)
            by = {}
            for nm, mo in o["members"].items():
                if mo["status"] != 200:
                    continue
                # every member whose served body is a calendar object counts, whatever its name looks like
                uid = self.body_uid(mo["body"]) if (nm.endswith(".ics") or (mo["body"] or b"").lstrip()[:15].upper().startswith(b"BEGIN:VCALENDAR")) else None
                if uid is not None:
                    by.setdefault(uid, []).append(nm)
            self.res.count("uid_audits")
            for uid, ns in by.items():
                if len(ns) > 1:
                    self.viol(w, f"{where}/duplicate-live-uid", f"{p}: UID {uid!r} is carried by {sorted(ns)!r}")
            new = {u: ns[0] for u, ns in by.items()}
            old = self.holders.get(key, {})
            rel = self.released.setdefault(key, {})
            for u, n in old.items():
                if u not in new:
                    if n in o["members"] and o["members"][n]["status"] == 200:
                        rel[u] = "stale-after-uid-change"
                        self.res.count("uid_released_by_change")
                    else:
                        rel[u] = "stale-after-delete"
                        self.res.count("uid_released_by_delete")
                elif new[u] != n:
                    rel[u] = "stale-after-move"
            for u in new:
                if u in rel:
                    self.res.count("uid_reused")
                    del rel[u]
            self.holders[key] = new
            self.everheld.setdefault(key, set()).update(new)
            fp = common.h(sorted((nm, mo["sha"]) for nm, mo in o["members"].items() if mo["status"] == 200))
            pr = self.pending_refusal
            if pr is not None and pr[0] == key:
                if self.fp.get(key) is not None and self.fp[key] != fp:
                    self.viol(w, f"{where}/refused-write-changed-state", f"{p}: a write refused with no-uid-conflict changed the collection contents")
                self.pending_refusal = None
            self.fp[key] = fp
            self.res.seen(where, sorted(new.items()))
